//! C13 on every non-TCP driver: the drivers of C09 (datagram sockets, unresolved neighbors),
//! C12 (egress fragmentation in progress), C16 (neighbor discovery and its back-off), C18 (DHCP),
//! C19 (DNS) and C10's scenario families (TCP transfers, replies, DHCP with the configuration
//! applied, DNS/mDNS, multicast and SLAAC with and without router advertisements) are re-run
//! with the probe of sim/hostprobe.rs installed in every Host they create.  Only the probe's
//! verdicts count here; the drivers' own oracles belong to their own properties.
use crate::sim::hostprobe;
use crate::util::rng::Rng;
use crate::util::run::{CaseOut, Ctx};

type CaseFn = fn(u64, &mut Rng, &Ctx) -> CaseOut;

fn wrap(driver: &'static str, i: u64, r: &mut Rng, c: &Ctx, f: CaseFn) -> CaseOut {
    let seed = r.next_u64();
    let (inner, mut out) = hostprobe::with_probes(driver, seed, || f(i, r, c));
    // a driver that could not run its case (harness-side problem) leaves C13 without observations too
    for e in inner.harness_errors {
        out.harness_errors.push(format!("driver {}: {}", driver, e));
    }
    out.count(&format!("runs_{}", driver), 1);
    out
}

fn dgram(i: u64, r: &mut Rng, c: &Ctx) -> CaseOut {
    wrap("dgram", i, r, c, super::c09::case_mixed)
}
fn frag(i: u64, r: &mut Rng, c: &Ctx) -> CaseOut {
    wrap("frag", i, r, c, super::c12::egress_b2b)
}
fn neigh(i: u64, r: &mut Rng, c: &Ctx) -> CaseOut {
    wrap("neigh", i, r, c, super::c16::case)
}
fn dhcp(i: u64, r: &mut Rng, c: &Ctx) -> CaseOut {
    if i % 2 == 0 {
        wrap("dhcp", i, r, c, super::c18::script_case)
    } else {
        wrap("dhcp", i, r, c, super::c18::lease_case)
    }
}
/// the DNS cases run on a watchdog thread of their own (mon/c19.rs): the probes are installed inside it
fn dns_resolve_probed(i: u64, r: &mut Rng, c: &Ctx) -> CaseOut {
    wrap("dns", i, r, c, super::c19::resolve_body)
}
fn dns_fuzz_probed(i: u64, r: &mut Rng, c: &Ctx) -> CaseOut {
    wrap("dns", i, r, c, super::c19::fuzz_body)
}
fn dns(i: u64, r: &mut Rng, c: &Ctx) -> CaseOut {
    let mut out = super::c19::guarded(i, r, c, if i % 3 == 0 { dns_fuzz_probed } else { dns_resolve_probed });
    // a case that does not return or panics is C19's / C03's subject; here it only means "nothing observed"
    let foreign: Vec<_> = out.violations.iter().filter(|v| !(v.sig.starts_with("S:") || v.sig.starts_with("N:"))).map(|v| v.sig.clone()).collect();
    out.violations.retain(|v| v.sig.starts_with("S:") || v.sig.starts_with("N:"));
    for f in foreign {
        out.harness_errors.push(format!("driver dns: case ended with {}", f));
    }
    out
}
fn scen(i: u64, r: &mut Rng, c: &Ctx) -> CaseOut {
    match i % 6 {
        0 => wrap("scen-tcp", i, r, c, super::c10::tcp_case),
        1 => wrap("scen-dgram", i, r, c, super::c10::dgram_case),
        2 => wrap("scen-replies", i, r, c, super::c10::replies_case),
        3 => wrap("scen-dhcp", i, r, c, super::c10::dhcp_case),
        4 => wrap("scen-dns", i, r, c, super::c10::dns_case),
        _ => wrap("scen-mcast-slaac", i, r, c, super::c10::mcast_case),
    }
}

/// TCP sender against a peer that closes its window and then falls silent, with user timeout
/// and/or keep-alive configured (sim/tcp_peer.rs::run_silent_zero_window).  Only the probe's
/// verdicts count; the scripted peer's own oracles belong to C02/C04/C05/C17.
fn tcp_silent(_i: u64, r: &mut Rng, _c: &Ctx) -> CaseOut {
    use crate::sim::tcp_peer::{random_cfg, PeerSim};
    let seed = r.next_u64();
    let mut cfg = random_cfg(r, 2);
    cfg.stingy = true;
    cfg.sock_total = r.range(1, 20_000);
    cfg.timeout_ms = *r.pick(&[None, Some(500u64), Some(2_000), Some(5_000), Some(5_000), Some(12_000), Some(30_000), Some(100_000)]);
    cfg.keep_alive_ms = *r.pick(&[None, None, Some(500u64), Some(5_000), Some(75_000)]);
    let tag = r.next_u64();
    let (polls, mut out) = hostprobe::with_probes("tcp-silent", seed, || {
        let mut sim = PeerSim::new(cfg.clone(), tag);
        sim.run_silent_zero_window(r)
    });
    out.count("runs_tcp-silent", 1);
    out.count("tcp_silent_timer_polls", polls);
    if cfg.timeout_ms.is_some() {
        out.count("tcp_silent_runs_with_user_timeout", 1);
    }
    out
}

pub fn parts() -> Vec<super::Part> {
    vec![
        super::Part { name: "tcp-silent", cases: |c| c.n(4_000, 100_000), f: tcp_silent },
        super::Part { name: "dgram", cases: |c| c.n(6_000, 200_000), f: dgram },
        super::Part { name: "frag", cases: |c| c.n(6_000, 200_000), f: frag },
        super::Part { name: "neigh", cases: |c| c.n(2_000, 60_000), f: neigh },
        super::Part { name: "dhcp", cases: |c| c.n(4_000, 100_000), f: dhcp },
        super::Part { name: "dns", cases: |c| c.n(4_000, 100_000), f: dns },
        super::Part { name: "scen", cases: |c| c.n(6_000, 120_000), f: scen },
    ]
}
