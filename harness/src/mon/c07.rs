//! C07 – checked packet views never panic on arbitrary bytes.
//!
//! For every exported view type of `smoltcp::wire` there is one hand-written
//! *accessor table* `exercise_<type>`: it builds the checked view and, if that
//! succeeds, calls every read accessor that applies to the packet's own message
//! type, the representation parser (with both checksum settings) and the
//! formatters.  Every call is a *row* (`Tab::acc`, `acc_if`, `parse`, `fmt`) and
//! runs under `catch_unwind`; the predicate of an `acc_if` row is the documented
//! applicability of the accessor and is written next to it.
//!
//! Inputs: arbitrary bytes, every truncation / single-field corruption / splice
//! of a corpus of well-formed packets, hostile DNS names and hostile option
//! lists.  Every input is fed to EVERY table (a UDP packet is arbitrary bytes
//! for the TCP view).
//!
//! Oracle: no panic (in safe Rust an out-of-bounds read is a panic; the wire
//! module contains no `unsafe`), harness-controlled loops stay inside their
//! step budget, and every case returns (a watchdog thread reports a call that
//! never comes back as `no-termination:<type>`).
use crate::gen::corpus::{self, corpus};
use crate::gen::hostile;
use crate::util::json::Json;
use crate::util::rng::Rng;
use crate::util::run::*;
use smoltcp::phy::ChecksumCapabilities;
use smoltcp::wire::*;
use std::cell::RefCell;
use std::collections::{BTreeMap, HashMap};
use std::hint::black_box as bb;
use std::sync::atomic::{AtomicU64, AtomicUsize, Ordering};
use std::sync::{mpsc, Arc, Mutex};
use std::time::{Duration, Instant};

pub const RULE: &str = "for each input and each of the 25 exported view types (23 Packet/Frame/Header/Option views + the two 6LoWPAN dispatchers): new_checked either fails or every applicable accessor, Repr::parse (both checksum settings, fixed addresses), Display and PrettyPrinter return without panicking; harness-side iteration (IPv6/TCP/DHCP options, DNS questions/records/labels) ends within len+1 steps; every call returns (watchdog). Inputs: arbitrary bytes 0..=2048, all truncations and all single-byte/16-bit boundary corruptions of a corpus of well-formed packets, splices, hostile DNS compression, hostile option lengths. A class is (type, accepted|rejected|parse outcome, input source).";

/// Seconds after which a case that has not returned is reported as non-terminating.
/// A whole case normally takes a few milliseconds.
const WATCHDOG_SECS: u64 = 15;
/// A single exerciser call slower than this is a harness error (not a violation).
const SLOW_CALL_SECS: u64 = 5;

// ================================================================ per-input bookkeeping

/// What one accessor table did with one input.
#[derive(Default, Clone, Copy)]
pub struct Ex {
    pub accepted: bool,
    pub calls: u64,
    pub parse_ok: u64,
    pub parse_err: u64,
}

/// Row recorder handed to an accessor table.
pub struct Tab<'a> {
    ty: &'static str,
    bytes: &'a [u8],
    source: &'static str,
    ex: Ex,
    found: &'a mut Findings,
    /// row name -> calls; only filled by the `table` part
    rows: Option<&'a mut Vec<(&'static str, u64)>>,
    notes: &'a mut Vec<&'static str>,
    /// set once a harness-controlled loop ran out of budget: the remaining rows of this input are
    /// skipped, because a loop inside smoltcp over the same data would most likely never return
    aborted: bool,
}

/// Violations of one case, the shortest input per signature.
#[derive(Default)]
pub struct Findings {
    by_sig: BTreeMap<String, (usize, Violation)>,
    harness: Vec<String>,
}

thread_local! {
    // PanicInfo::signature() reads the source file; remember the answer per panic site.
    static SIG_CACHE: RefCell<HashMap<(String, u32, String), String>> = RefCell::new(HashMap::new());
}

fn strip_digits(s: &str) -> String {
    s.chars().filter(|c| !c.is_ascii_digit()).collect()
}

fn panic_signature(p: &PanicInfo) -> String {
    let key = (p.file.clone(), p.line, strip_digits(&p.msg));
    SIG_CACHE.with(|c| c.borrow_mut().entry(key).or_insert_with(|| p.signature()).clone())
}

impl Findings {
    fn add(&mut self, sig: String, len: usize, make: impl FnOnce() -> Violation) {
        match self.by_sig.get(&sig) {
            Some((l, _)) if *l <= len => {}
            _ => {
                let v = make();
                self.by_sig.insert(sig, (len, v));
            }
        }
    }
}

impl<'a> Tab<'a> {
    fn row(&mut self, name: &'static str, called: bool) {
        if let Some(rows) = self.rows.as_deref_mut() {
            match rows.iter_mut().find(|r| r.0 == name) {
                Some(r) => r.1 += called as u64,
                None => rows.push((name, called as u64)),
            }
        }
    }

    fn panicked(&mut self, row: &'static str, p: PanicInfo) {
        if !p.in_target() {
            self.found.harness.push(format!("harness panic in row {}:{} at {}:{}: {}", self.ty, row, p.file, p.line, p.msg));
            return;
        }
        let sig = format!("{}:{}", self.ty, panic_signature(&p));
        let (ty, bytes, source) = (self.ty, self.bytes, self.source);
        self.found.add(sig.clone(), bytes.len(), || {
            Violation::new(
                sig,
                format!(
                    "{}::new_checked accepted the {}-byte input {} (source: {}), then `{}` panicked at {}:{}: {}",
                    ty,
                    bytes.len(),
                    Json::hex(bytes).to_string(),
                    source,
                    row,
                    p.file,
                    p.line,
                    p.msg
                ),
            )
            .with(
                Json::obj()
                    .set("type", Json::s(ty))
                    .set("row", Json::s(row))
                    .set("input", Json::hex(bytes))
                    .set("input_len", Json::u(bytes.len() as u64))
                    .set("source", Json::s(source))
                    .set("panic_file", Json::s(p.file.clone()))
                    .set("panic_line", Json::u(p.line as u64))
                    .set("panic_msg", Json::s(p.msg.clone())),
            )
        });
    }

    /// A read accessor without precondition.
    pub fn acc<R>(&mut self, name: &'static str, f: impl FnOnce() -> R) {
        self.acc_if(name, true, f)
    }

    /// A read accessor that applies only when `applies` holds (the documented precondition).
    pub fn acc_if<R>(&mut self, name: &'static str, applies: bool, f: impl FnOnce() -> R) {
        self.row(name, applies);
        if !applies || self.aborted {
            return;
        }
        match catch(|| {
            bb(f());
        }) {
            Ok(()) => self.ex.calls += 1,
            Err(p) => self.panicked(name, p),
        }
    }

    /// A representation parser; the closure says whether it returned Ok.
    pub fn parse(&mut self, name: &'static str, f: impl FnOnce() -> bool) {
        self.parse_if(name, true, f)
    }

    pub fn parse_if(&mut self, name: &'static str, applies: bool, f: impl FnOnce() -> bool) {
        self.row(name, applies);
        if !applies || self.aborted {
            return;
        }
        match catch(f) {
            Ok(true) => self.ex.parse_ok += 1,
            Ok(false) => self.ex.parse_err += 1,
            Err(p) => self.panicked(name, p),
        }
    }

    /// Display / PrettyPrinter; the text is discarded.
    pub fn fmt(&mut self, name: &'static str, f: impl FnOnce() -> String) {
        self.acc(name, f)
    }

    /// A harness-controlled loop; the closure returns false when it ran out of its step budget.
    pub fn bounded(&mut self, name: &'static str, f: impl FnOnce() -> bool) {
        self.row(name, true);
        if self.aborted {
            return;
        }
        match catch(f) {
            Ok(true) => self.ex.calls += 1,
            Ok(false) => {
                self.aborted = true;
                let sig = format!("no-termination:{}", self.ty);
                let (ty, bytes, source) = (self.ty, self.bytes, self.source);
                self.found.add(sig.clone(), bytes.len(), || {
                    Violation::new(
                        sig,
                        format!(
                            "{}: `{}` was still producing items after more steps than the {}-byte input {} (source: {}) has bytes",
                            ty,
                            name,
                            bytes.len(),
                            Json::hex(bytes).to_string(),
                            source
                        ),
                    )
                    .with(Json::obj().set("type", Json::s(ty)).set("row", Json::s(name)).set("input", Json::hex(bytes)).set("source", Json::s(source)))
                });
            }
            Err(p) => self.panicked(name, p),
        }
    }

    /// Outcomes of a parser that is called in a harness-side loop (one tally per item).
    pub fn tally(&mut self, ok: u64, err: u64) {
        self.ex.parse_ok += ok;
        self.ex.parse_err += err;
    }

    /// Record an informative behaviour note (becomes a class `<Type>/<note>/<source>`).
    pub fn note(&mut self, n: &'static str) {
        if !self.notes.contains(&n) {
            self.notes.push(n);
        }
    }

    fn done(&mut self) -> (bool, u64) {
        self.ex.accepted = true;
        (true, self.ex.calls)
    }
}

// fixed addresses for the parsers that need them (those of the corpus, so that its checksums verify)
fn a4() -> IpAddress {
    corpus::V4A.into()
}
fn b4() -> IpAddress {
    corpus::V4B.into()
}
fn a6() -> IpAddress {
    corpus::V6A.into()
}
fn b6() -> IpAddress {
    corpus::V6B.into()
}
fn strict() -> ChecksumCapabilities {
    ChecksumCapabilities::default()
}
fn lax() -> ChecksumCapabilities {
    ChecksumCapabilities::ignored()
}

mod tables;
pub use tables::TYPES;

// ================================================================ running inputs through all tables

#[derive(Default, Clone)]
struct TypeStat {
    inputs: u64,
    accepted: u64,
    calls: u64,
    parse_ok: u64,
    parse_err: u64,
    notes: Vec<&'static str>,
}

/// Shared with the watchdog: what the worker is doing right now.
struct Progress {
    ty: AtomicUsize,
    input: Mutex<Vec<u8>>,
}

struct Sink {
    source: &'static str,
    stats: Vec<TypeStat>,
    found: Findings,
    inputs: u64,
    rows: Option<Vec<Vec<(&'static str, u64)>>>,
    progress: Arc<Progress>,
    slow: Vec<String>,
}

impl Sink {
    fn new(source: &'static str, progress: Arc<Progress>) -> Sink {
        Sink { source, stats: vec![TypeStat::default(); TYPES.len()], found: Findings::default(), inputs: 0, rows: None, progress, slow: Vec::new() }
    }

    /// Feed one input to every accessor table. Returns the per-type acceptance mask.
    fn feed(&mut self, bytes: &[u8]) -> u32 {
        debug_assert!(bytes.len() <= 2048);
        self.inputs += 1;
        {
            let mut cur = self.progress.input.lock().unwrap();
            cur.clear();
            cur.extend_from_slice(bytes);
        }
        let mut mask = 0u32;
        for (i, (ty, f)) in TYPES.iter().enumerate() {
            self.progress.ty.store(i, Ordering::Relaxed);
            let st = &mut self.stats[i];
            let mut tab = Tab {
                ty,
                bytes,
                source: self.source,
                ex: Ex::default(),
                found: &mut self.found,
                rows: self.rows.as_mut().map(|r| &mut r[i]),
                notes: &mut st.notes,
                aborted: false,
            };
            let t0 = Instant::now();
            let r = catch(|| f(bytes, &mut tab));
            let dt = t0.elapsed();
            let ex = tab.ex;
            if let Err(p) = r {
                // new_checked itself (or harness code between rows) panicked
                tab.panicked("new_checked", p);
            }
            if dt > Duration::from_secs(SLOW_CALL_SECS) && self.slow.len() < 4 {
                self.slow.push(format!("slow-call:{} took {:.1}s on the {}-byte input {}", ty, dt.as_secs_f64(), bytes.len(), Json::hex(bytes).to_string()));
            }
            st.inputs += 1;
            st.accepted += ex.accepted as u64;
            st.calls += ex.calls;
            st.parse_ok += ex.parse_ok;
            st.parse_err += ex.parse_err;
            if ex.accepted {
                mask |= 1 << i;
            }
        }
        mask
    }

    fn finish(self, out: &mut CaseOut) {
        for (i, st) in self.stats.iter().enumerate() {
            let ty = TYPES[i].0;
            if st.inputs == 0 {
                continue;
            }
            out.evals += st.inputs;
            out.count(&format!("{}/inputs", ty), st.inputs);
            out.count(&format!("{}/accepted", ty), st.accepted);
            out.count(&format!("{}/accessor_calls", ty), st.calls);
            out.count(&format!("{}/parse_ok", ty), st.parse_ok);
            out.count(&format!("{}/parse_err", ty), st.parse_err);
            if st.accepted > 0 {
                out.class(format!("{}/accepted/{}", ty, self.source));
            }
            if st.accepted < st.inputs {
                out.class(format!("{}/rejected/{}", ty, self.source));
            }
            if st.parse_ok > 0 {
                out.class(format!("{}/parse-ok/{}", ty, self.source));
            }
            if st.parse_err > 0 {
                out.class(format!("{}/parse-err/{}", ty, self.source));
            }
            for n in &st.notes {
                out.class(format!("{}/{}/{}", ty, n, self.source));
            }
        }
        out.count("inputs", self.inputs);
        out.count(&format!("inputs/{}", self.source), self.inputs);
        for (_, (_, v)) in self.found.by_sig {
            out.violate(v);
        }
        out.harness_errors.extend(self.found.harness);
        out.harness_errors.extend(self.slow);
    }
}

// ================================================================ watchdog

static HUNG_THREADS: AtomicU64 = AtomicU64::new(0);

/// Run the body of a case on a helper thread and wait for it with a deadline.
/// A call that loops forever inside smoltcp cannot be pre-empted; the helper is
/// then abandoned (it dies with the process) and the case reports
/// `no-termination:<type>` with the input it was working on.
fn guarded(source: &'static str, body: impl FnOnce(&mut Sink, &mut CaseOut) + Send + 'static) -> CaseOut {
    if HUNG_THREADS.load(Ordering::Relaxed) >= 4 {
        // several abandoned helpers are already spinning: do not pile up more
        let mut out = CaseOut::default();
        out.harness_errors.push("case skipped: four earlier cases never returned (see no-termination violations)".into());
        return out;
    }
    let progress = Arc::new(Progress { ty: AtomicUsize::new(0), input: Mutex::new(Vec::new()) });
    let p2 = progress.clone();
    let (tx, rx) = mpsc::channel::<CaseOut>();
    let spawned = std::thread::Builder::new().stack_size(8 << 20).spawn(move || {
        let mut out = CaseOut::default();
        let mut sink = Sink::new(source, p2);
        let r = catch(|| body(&mut sink, &mut out));
        if let Err(p) = r {
            out.harness_errors.push(format!("harness panic at {}:{}: {}", p.file, p.line, p.msg));
        }
        sink.finish(&mut out);
        let _ = tx.send(out);
    });
    if let Err(e) = spawned {
        let mut out = CaseOut::default();
        out.harness_errors.push(format!("cannot spawn helper thread: {}", e));
        return out;
    }
    match rx.recv_timeout(Duration::from_secs(WATCHDOG_SECS)) {
        Ok(out) => out,
        Err(mpsc::RecvTimeoutError::Timeout) => {
            HUNG_THREADS.fetch_add(1, Ordering::Relaxed);
            let ty = TYPES[progress.ty.load(Ordering::Relaxed).min(TYPES.len() - 1)].0;
            let input = progress.input.lock().map(|g| g.clone()).unwrap_or_default();
            let mut out = CaseOut::default();
            out.evals = 1;
            out.violate(
                Violation::new(
                    format!("no-termination:{}", ty),
                    format!(
                        "{}: a call on the {}-byte input {} (source: {}) did not return within {} s; the case was abandoned",
                        ty,
                        input.len(),
                        Json::hex(&input).to_string(),
                        source,
                        WATCHDOG_SECS
                    ),
                )
                .with(Json::obj().set("type", Json::s(ty)).set("input", Json::hex(&input)).set("source", Json::s(source))),
            );
            out
        }
        Err(mpsc::RecvTimeoutError::Disconnected) => {
            let mut out = CaseOut::default();
            out.harness_errors.push("helper thread died without a result".into());
            out
        }
    }
}

mod parts;
pub use parts::monitor;
