//! C04 / C17 / C05(ii): the scripted-peer simulation (sim::tcp_peer), one verdict per property.
use crate::sim::tcp_peer::*;
use crate::util::json::Json;
use crate::util::rng::Rng;
use crate::util::run::*;

fn harvest(prop: &'static str, cfg: &PeerCfg, sim: &mut PeerSim, out: &mut CaseOut, verbose: bool) {
    let st = sim.stats.clone();
    if verbose {
        println!("stats: {:?}", st);
        println!("sender: {:?}", sim.smon.stats);
    }
    match prop {
        "C04" => {
            out.evals += st.segs_injected + st.acks_checked + st.reads;
            for c in &st.seg_class {
                // placement x flag class x buffer class
                let mut it = c.split('|');
                let _state = it.next();
                out.class(format!("place:{}|rx{}", it.collect::<Vec<_>>().join("|"), if cfg.rx_buf < 600 { "-small" } else if cfg.rx_buf > 65535 { "-scaled" } else { "" }));
            }
        }
        "C17" => {
            out.evals += st.state_checks;
            for t in &st.transitions {
                out.class(format!("edge:{}", t));
            }
            for c in &st.seg_class {
                out.class(format!("from:{}", c));
            }
        }
        _ => {
            out.evals += sim.smon.stats.data_segments + sim.smon.stats.syns + sim.smon.stats.fins;
            out.class(format!("mss:{:?}|ws:{:?}|ts:{}", cfg.peer_mss, cfg.peer_ws, cfg.peer_ts));
        }
    }
    out.count("segments_injected", st.segs_injected);
    out.count("acks_checked", st.acks_checked);
    out.count("reads", st.reads);
    out.count("bytes_delivered_and_compared", st.bytes_delivered);
    out.count("state_checks", st.state_checks);
    out.count("forbidden_edge_attempts", st.forbidden_attempts);
    out.count("rsts_outside_window", st.blind_rsts);
    out.count("syns_carrying_data", st.syns_with_data);
    out.count("cooperative_epilogues", st.coop_epilogues);
    out.count("cooperative_epilogues_completed", st.coop_completed);
    out.count("owed_retransmission_checks", st.owed_retransmission_checks);
    out.count("sack_blocks_checked", st.sack_blocks_checked);
    out.count("set_keep_alive_calls", st.keep_alive_calls);
    out.count("set_keep_alive_calls_in_time_wait", st.keep_alive_calls_in_time_wait);
    out.count("runs_with_finished", st.finished as u64);
    out.count("runs_with_seq_wrap", st.wrap as u64);
    out.count("max_ranges_open", st.max_holes as u64);
    out.count("c05_data_segments", sim.smon.stats.data_segments);
    out.count("c05_retransmitted_segments", sim.smon.stats.retransmitted_segments);
    out.count("c05_zero_window_probes", sim.smon.stats.probes);
    out.count("c05_keep_alive_segments", sim.smon.stats.keep_alives);
    out.count("c05_window_edge_moved_left", sim.smon.stats.edge_shrank);
    out.count("c05_bytes_content_checked", sim.smon.stats.bytes_checked);
    for t in std::mem::take(&mut sim.violations) {
        if t.prop == prop {
            out.violate(t.v);
        }
    }
}

fn run_peer(prop: &'static str, focus: u8, idx: u64, rng: &mut Rng, ctx: &Ctx) -> CaseOut {
    let mut out = CaseOut::default();
    let mut cfg = random_cfg(rng, focus);
    if prop == "C02" && idx % 3 != 0 {
        // C02 judges deadlines: two thirds of its scripted peers are stingy ones (see PeerCfg::stingy)
        cfg.stingy = true;
        cfg.keep_alive_ms = None;
        cfg.timeout_ms = None;
    }
    let tag = rng.next_u64();
    let mut sim = PeerSim::new(cfg.clone(), tag);
    sim.verbose = ctx.verbose;
    sim.run(rng);
    harvest(prop, &cfg, &mut sim, &mut out, ctx.verbose);
    out.count("runs", 1);
    if idx == 0 {
        out.sample = Some(Json::obj().set("config", Json::s(format!("{:?}", cfg))).set("history_tail", Json::Arr(sim.log.iter().take(30).map(|s| Json::s(s.clone())).collect())));
    }
    // socket reuse: up to two more connections on the same socket, each with another peer
    // configuration (MSS / window scale / timestamps announced or not, other role)
    let mut n = 0;
    loop {
        // a listener that fell back to LISTEN always goes on listening for the next peer
        let back_in_listen = sim.state() == smoltcp::socket::tcp::State::Listen;
        if !(n < 2 && out.violations.is_empty() && (back_in_listen || rng.chance(1, 3))) {
            break;
        }
        n += 1;
        let mut cfg2 = random_cfg(rng, focus);
        if prop == "C02" && idx % 3 != 0 {
            cfg2.stingy = true;
            cfg2.keep_alive_ms = None;
            cfg2.timeout_ms = None;
        }
        if back_in_listen {
            cfg2.active = false;
            out.count("listeners_reused_after_falling_back_to_listen", 1);
        }
        let tag2 = rng.next_u64();
        let expire = rng.bool();
        match sim.reuse(cfg2, tag2, expire) {
            Some(mut s2) => {
                s2.verbose = ctx.verbose;
                if ctx.verbose {
                    println!("---- the socket is reused for another connection: {:?}", s2.cfg);
                }
                s2.run(rng);
                let c2 = s2.cfg.clone();
                harvest(prop, &c2, &mut s2, &mut out, ctx.verbose);
                out.count("connections_on_a_reused_socket", 1);
                sim = s2;
            }
            None => {
                out.count("reuse_not_possible", 1);
                break;
            }
        }
    }
    out
}

pub fn c04_case(i: u64, r: &mut Rng, c: &Ctx) -> CaseOut {
    run_peer("C04", 0, i, r, c)
}
pub fn c17_case(i: u64, r: &mut Rng, c: &Ctx) -> CaseOut {
    run_peer("C17", 1, i, r, c)
}
pub fn c02_peer_case(i: u64, r: &mut Rng, c: &Ctx) -> CaseOut {
    run_peer("C02", 2, i, r, c)
}
pub fn c05_peer_case(i: u64, r: &mut Rng, c: &Ctx) -> CaseOut {
    run_peer("C05", 2, i, r, c)
}

pub fn monitor_c04() -> super::Monitor {
    super::Monitor {
        id: "C04",
        rule: "a scripted, consistent peer (byte at stream offset i is fixed, FIN at a fixed offset) sends segments placed relative to the socket's RCV.NXT and advertised right edge (left, overlapping, in order, behind a hole, overrunning the edge, at the edge, beyond) with arbitrary acceptable and unacceptable ACK numbers and windows, interleaved with reads; monitor state = what the socket told the peer (ACK, window) + what the peer sent: S = bytes that arrived inside a window the socket had advertised. Delivered bytes equal the peer's bytes and stay inside the contiguous prefix of S; every ACK number the socket emits <= contiguous prefix of S (+1 only for a FIN received in order and in window); Finished only after all bytes before the FIN. A class is (placement, ACK class, FIN/RST, buffer class).",
        assumptions: &[
            "window the socket 'advertised' = the highest right edge (ACK + window << negotiated shift) it ever put on the wire (weakest sound reading)",
            "a FIN whose sequence number equals the right edge is tolerated",
            "in a third of the cases the same socket serves one or two further connections (socket reuse) with a fresh model",
        ],
        floors: &[("runs", 500), ("segments_injected", 50_000), ("acks_checked", 20_000), ("runs_with_finished", 20), ("distinct", 60)],
        parts: vec![super::Part { name: "peer", cases: |c| c.n(20_000, 400_000), f: c04_case }],
        post: None,
    }
}

pub fn monitor_c17() -> super::Monitor {
    super::Monitor {
        id: "C17",
        rule: "one event at a time (one injected segment via poll_ingress_single, one poll_egress with a time advance, or one API call), state() read before and after; the monitor classifies the event from its own bookkeeping (socket ISS from its SYN, its FIN position from the bytes written before close, the peer's in-order position from the receiver model, the window from emitted segments) and permits only the RFC 9293 edges: ESTABLISHED only on ack==ISS+1, CLOSE-WAIT/CLOSING/TIME-WAIT entry only on an in-order in-window FIN, FIN-WAIT-2 / LAST-ACK->CLOSED / CLOSING->TIME-WAIT only on ack==own FIN+1, reset only by an RST inside [last ACK emitted, advertised edge) (or the exactly expected RST|ACK in SYN-SENT), TIME-WAIT leaves only by its 10 s timer and does leave. A class is a distinct observed (state,event,next state) edge or (state, placement, ack class).",
        assumptions: &["an unchanged state is always permitted; only changes are judged", "a listener that returns to LISTEN ends the connection's run; in a third of the cases the same socket then serves one or two further connections (socket reuse after abort or after TIME-WAIT expiry) with a fresh model and another peer configuration"],
        floors: &[("runs", 500), ("state_checks", 100_000), ("forbidden_edge_attempts", 10_000), ("rsts_outside_window", 500), ("set_keep_alive_calls_in_time_wait", 50), ("distinct", 150)],
        parts: vec![super::Part { name: "peer", cases: |c| c.n(20_000, 400_000), f: c17_case }],
        post: None,
    }
}
