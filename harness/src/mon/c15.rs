//! C15 – the reassembly tracker is an exact, bounded set of byte ranges.
//!
//! Oracle: a bitmap (u128).  Part "closure" explores every reachable state of
//! the real `Assembler` over a bounded universe of offsets and applies every
//! operation with every argument to each of them; part "walk" runs long random
//! walks over a larger universe (so that a maximum of 32 ranges binds as well).
use crate::util::json::Json;
use crate::util::rng::Rng;
use crate::util::run::*;
use smoltcp::config::ASSEMBLER_MAX_SEGMENT_COUNT as MAXR;
use smoltcp::storage::Assembler;
use std::collections::{BTreeMap, VecDeque};

pub const RULE: &str = "bitmap model vs. the real Assembler: after every add / remove_front / add_then_remove_front / clear, iter_data(), peek_front() and is_empty() must equal the runs of the bitmap; Err only if the union needs more than the configured maximum of runs (and then the state is unchanged), Ok only if it does not; add_then_remove_front at offset 0 never fails. closure part: all reachable states over a bounded universe x all operations; walk part: random walks. A class is (operation, outcome, runs-before, runs-after).";

fn runs(bm: u128, u: usize) -> Vec<(usize, usize)> {
    let mut v = Vec::new();
    let mut i = 0;
    while i < u {
        if bm >> i & 1 == 1 {
            let s = i;
            while i < u && bm >> i & 1 == 1 {
                i += 1;
            }
            v.push((s, i));
        } else {
            i += 1;
        }
    }
    v
}

fn mask(o: usize, s: usize) -> u128 {
    if s == 0 {
        0
    } else if s >= 128 {
        u128::MAX << o
    } else {
        ((1u128 << s) - 1) << o
    }
}

#[derive(Clone, Copy, Debug, PartialEq)]
pub enum AOp {
    Add(usize, usize),
    RemoveFront,
    AddThenRemove(usize, usize),
    Clear,
}

fn aname(op: &AOp) -> &'static str {
    match op {
        AOp::Add(..) => "add",
        AOp::RemoveFront => "remove_front",
        AOp::AddThenRemove(..) => "add_then_remove_front",
        AOp::Clear => "clear",
    }
}

fn observe(a: &Assembler, bm: u128, u: usize) -> Result<(), String> {
    let want = runs(bm, u);
    let got: Vec<(usize, usize)> = a.iter_data().collect();
    if got != want {
        return Err(format!("iter_data() = {:?}, the union of inserted ranges is {:?}", got, want));
    }
    let front = match want.first() {
        Some((0, e)) => *e,
        _ => 0,
    };
    if a.peek_front() != front {
        return Err(format!("peek_front() = {}, expected {}", a.peek_front(), front));
    }
    if a.is_empty() != want.is_empty() {
        return Err(format!("is_empty() = {} with ranges {:?}", a.is_empty(), want));
    }
    Ok(())
}

/// apply op to real + model; returns (outcome label, new bitmap)
fn step(a: &mut Assembler, bm: u128, u: usize, op: &AOp) -> Result<(&'static str, u128), String> {
    let before = a.clone();
    let (label, nbm) = match *op {
        AOp::Add(o, s) => {
            let union = bm | mask(o, s);
            let fits = runs(union, u).len() <= MAXR;
            match a.add(o, s) {
                Ok(()) => {
                    if !fits {
                        return Err(format!(
                            "add({},{}) accepted although the union {:?} needs more than {} ranges",
                            o, s, runs(union, u), MAXR
                        ));
                    }
                    ("ok", union)
                }
                Err(_) => {
                    if fits {
                        return Err(format!(
                            "add({},{}) refused although the union {:?} needs only {} ranges (max {})",
                            o, s, runs(union, u), runs(union, u).len(), MAXR
                        ));
                    }
                    if *a != before {
                        return Err(format!("refused add({},{}) changed the tracker", o, s));
                    }
                    ("refused", bm)
                }
            }
        }
        AOp::RemoveFront => {
            let r = a.remove_front();
            let rs = runs(bm, u);
            match rs.first() {
                Some((0, e)) => {
                    if r != *e {
                        return Err(format!("remove_front() = {}, the front range is [0,{})", r, e));
                    }
                    ("removed", bm >> *e)
                }
                _ => {
                    if r != 0 {
                        return Err(format!("remove_front() = {} although no range starts at 0", r));
                    }
                    ("nothing", bm)
                }
            }
        }
        AOp::AddThenRemove(o, s) => {
            let union = bm | mask(o, s);
            let fits = runs(union, u).len() <= MAXR;
            match a.add_then_remove_front(o, s) {
                Ok(n) => {
                    let rs = runs(union, u);
                    let (front, after) = match rs.first() {
                        Some((0, e)) => (*e, union >> *e),
                        _ => (0, union),
                    };
                    if runs(after, u).len() > MAXR {
                        return Err(format!(
                            "add_then_remove_front({},{}) accepted although the result needs more than {} ranges",
                            o, s, MAXR
                        ));
                    }
                    if n != front {
                        return Err(format!(
                            "add_then_remove_front({},{}) = {}, the merged front range has {} bytes",
                            o, s, n, front
                        ));
                    }
                    (if fits { "ok" } else { "ok-via-front" }, after)
                }
                Err(_) => {
                    if o == 0 {
                        return Err(format!("add_then_remove_front(0,{}) failed", s));
                    }
                    if fits {
                        return Err(format!(
                            "add_then_remove_front({},{}) refused although the union needs only {} ranges (max {})",
                            o, s, runs(union, u).len(), MAXR
                        ));
                    }
                    if *a != before {
                        return Err(format!("refused add_then_remove_front({},{}) changed the tracker", o, s));
                    }
                    ("refused", bm)
                }
            }
        }
        AOp::Clear => {
            a.clear();
            ("ok", 0)
        }
    };
    observe(a, nbm, u)?;
    Ok((label, nbm))
}

fn violation(path: &str, state: &[(usize, usize)], op: &AOp, why: &str) -> Violation {
    Violation::new(
        format!("assembler:{}", aname(op)),
        format!("Assembler (max {} ranges) holding {:?}, {:?}: {}", MAXR, state, op, why),
    )
    .with(
        Json::obj()
            .set("max_ranges", Json::u(MAXR as u64))
            .set("reached_by", Json::s(path))
            .set("state_ranges", Json::s(format!("{:?}", state)))
            .set("op", Json::s(format!("{:?}", op)))
            .set("mismatch", Json::s(why)),
    )
}

pub fn closure_case(_idx: u64, _rng: &mut Rng, ctx: &Ctx) -> CaseOut {
    let mut out = CaseOut::default();
    let u: usize = if MAXR <= 8 {
        if ctx.thorough() { 18 } else { 14 }
    } else if ctx.thorough() {
        14
    } else {
        11
    };
    let mut ops = vec![AOp::RemoveFront, AOp::Clear];
    for o in 0..=u {
        for s in 0..=u - o {
            ops.push(AOp::Add(o, s));
            ops.push(AOp::AddThenRemove(o, s));
        }
    }
    // state = bitmap; we keep the real assembler that reached it first and how
    let mut seen: BTreeMap<u128, ()> = BTreeMap::new();
    let mut frontier: VecDeque<(u128, Assembler, String)> = VecDeque::new();
    frontier.push_back((0, Assembler::new(), "new()".into()));
    seen.insert(0, ());
    let mut states = 0u64;
    let mut transitions = 0u64;
    let mut refused = 0u64;
    while let Some((bm, asm, how)) = frontier.pop_front() {
        states += 1;
        let nruns = runs(bm, u).len();
        for op in &ops {
            transitions += 1;
            let mut a = asm.clone();
            let r = catch(|| step(&mut a, bm, u, op));
            match r {
                Ok(Ok((label, nbm))) => {
                    if label == "refused" {
                        refused += 1;
                    }
                    out.class(format!("{}/{}/{}->{}", aname(op), label, nruns, runs(nbm, u).len()));
                    if nbm >> u == 0 && !seen.contains_key(&nbm) {
                        seen.insert(nbm, ());
                        let how2 = if how.len() < 200 { format!("{} ; {:?}", how, op) } else { how.clone() };
                        frontier.push_back((nbm, a, how2));
                    }
                }
                Ok(Err(e)) => out.violate(violation(&how, &runs(bm, u), op, &e)),
                Err(p) => out.violate(violation(
                    &how,
                    &runs(bm, u),
                    op,
                    &format!("panicked at {}:{}: {}", p.file, p.line, p.msg),
                )),
            }
        }
    }
    out.evals = transitions;
    out.count("closure_states", states);
    out.count("closure_transitions", transitions);
    out.count("refused_checked", refused);
    out.count("closure_universe", u as u64);
    out.sample = Some(
        Json::obj()
            .set("kind", Json::s("reachable-state closure"))
            .set("universe", Json::u(u as u64))
            .set("max_ranges", Json::u(MAXR as u64))
            .set("states", Json::u(states))
            .set("transitions", Json::u(transitions))
            .set("refused_insertions_checked", Json::u(refused)),
    );
    out
}

pub fn walk_case(idx: u64, rng: &mut Rng, ctx: &Ctx) -> CaseOut {
    let mut out = CaseOut::default();
    let u: usize = *rng.pick(&[24usize, 48, 96, 120]);
    let steps = if ctx.thorough() { 20_000 } else { 2_000 };
    let mut a = Assembler::new();
    let mut bm: u128 = 0;
    let mut trace: VecDeque<AOp> = VecDeque::new();
    let mut maxruns = 0usize;
    // 0: mixed sizes, 1: small pieces, 2: "comb" (isolated single offsets: drives the range count to the maximum)
    let mode = rng.below(3);
    let small = mode >= 1;
    for _ in 0..steps {
        let op = if mode == 2 && rng.chance(3, 4) {
            AOp::Add(2 * rng.urange(0, u / 2 - 1), 1)
        } else {
            match rng.below(if mode == 2 { 40 } else { 20 }) {
                0..=11 => {
                    let o = rng.urange(0, u - 1);
                    let s = if small { rng.urange(0, 2) } else { rng.sizeish(u - o) };
                    AOp::Add(o, s.min(u - o))
                }
                12..=15 => {
                    let o = if rng.chance(2, 3) { 0 } else { rng.urange(0, u - 1) };
                    let s = if small { rng.urange(0, 3) } else { rng.sizeish(u - o) };
                    AOp::AddThenRemove(o, s.min(u - o))
                }
                16..=18 => AOp::RemoveFront,
                19 => {
                    if rng.chance(1, 6) {
                        AOp::Clear
                    } else {
                        AOp::RemoveFront
                    }
                }
                _ => {
                    let o = rng.urange(1, u - 1);
                    AOp::AddThenRemove(o, rng.urange(0, 2).min(u - o))
                }
            }
        };
        if trace.len() >= 16 {
            trace.pop_front();
        }
        trace.push_back(op);
        let state = runs(bm, u);
        out.evals += 1;
        match catch(|| step(&mut a, bm, u, &op)) {
            Ok(Ok((label, nbm))) => {
                if label == "refused" {
                    out.count("refused_checked", 1);
                }
                out.class(format!("{}/{}/{}->{}", aname(&op), label, state.len(), runs(nbm, u).len()));
                bm = nbm & mask(0, u);
                if nbm >> u != 0 {
                    // cannot happen: ops never exceed the universe
                    out.harness_errors.push("bitmap escaped the universe".into());
                    break;
                }
                maxruns = maxruns.max(runs(bm, u).len());
            }
            Ok(Err(e)) => {
                out.violate(violation(&format!("random walk, last ops {:?}", trace), &state, &op, &e));
                break;
            }
            Err(p) => {
                out.violate(violation(
                    &format!("random walk, last ops {:?}", trace),
                    &state,
                    &op,
                    &format!("panicked at {}:{}: {}", p.file, p.line, p.msg),
                ));
                break;
            }
        }
    }
    out.count("walk_steps", out.evals);
    if maxruns >= MAXR {
        out.count("walks_reaching_max_ranges", 1);
    }
    if idx == 0 {
        out.sample = Some(
            Json::obj()
                .set("kind", Json::s("random walk"))
                .set("universe", Json::u(u as u64))
                .set("last_ops", Json::s(format!("{:?}", trace)))
                .set("max_ranges_seen", Json::u(maxruns as u64)),
        );
    }
    out
}

fn post(sum: &mut Summary) {
    sum.exhaustive = true;
    sum.extra.push((
        "exhaustive_scope".into(),
        Json::s("closure part only: every reachable tracker state over the stated universe x every operation and argument inside it; the walk part is sampled"),
    ));
    sum.extra.push(("max_ranges".into(), Json::u(MAXR as u64)));
}

pub fn monitor() -> super::Monitor {
    super::Monitor {
        id: "C15",
        rule: RULE,
        assumptions: &["add_then_remove_front with offset != 0 may be refused when the intermediate union exceeds the maximum (the statement only promises success for offset 0)"],
        floors: &[("closure_states", 500), ("refused_checked", 100), ("walks_reaching_max_ranges", 5), ("walk_steps", 10_000)],
        parts: vec![
            super::Part { name: "closure", cases: |_| 1, f: closure_case },
            super::Part { name: "walk", cases: |c| c.n(2000, 20000), f: walk_case },
        ],
        post: Some(post),
    }
}
