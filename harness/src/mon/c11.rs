//! C11 – only traffic addressed to the interface is delivered; no RST / ICMP error
//! in answer to broadcast/multicast destinations, non-unicast sources, ICMP errors
//! or resets; TCP to broadcast/multicast/loopback never changes a socket.
//!
//! Table driven: one fresh interface per cell of a finite grid
//! (medium x IP version x link-layer destination x source class x destination
//! class x protocol x socket configuration x joined group); the whole grid is
//! enumerated in both tiers (the quick tier visits every cell once, the thorough
//! tier additionally varies ports/payloads per cell with several seeds).
use crate::indep::mini::*;
use crate::indep::{self, ip, tcp as itcp, Addr};
use crate::sim::*;
use crate::util::json::Json;
use crate::util::rng::Rng;
use crate::util::run::*;
use smoltcp::iface::SocketHandle;
use smoltcp::socket::{icmp, raw, tcp, udp};
use smoltcp::phy::Medium;
use smoltcp::wire::{HardwareAddress, IpAddress, IpCidr, IpListenEndpoint, IpProtocol, IpVersion, Ipv4Address, Ipv6Address};

const MY_MAC: [u8; 6] = [0x02, 0, 0, 0, 0, 0x01];
const PEER_MAC: [u8; 6] = [0x02, 0, 0, 0, 0, 0x02];
const OTHER_MAC: [u8; 6] = [0x02, 0, 0, 0, 0, 0x99];

const SRC_N: u64 = 8;
const DST_N: u64 = 10;
const PROTO_N: u64 = 12;
const CFG_N: u64 = 4;

#[derive(Clone, Copy, Debug, PartialEq)]
enum SrcC {
    OnLink,
    OffLink,
    Own,
    SubnetBcast,
    LimitedBcast,
    Multicast,
    Unspecified,
    Loopback,
}
#[derive(Clone, Copy, Debug, PartialEq)]
enum DstC {
    Own,
    OtherUnicast,
    SubnetBcast,
    LimitedBcast,
    AllNodes,
    SolicitedNode,
    JoinedGroup,
    UnjoinedGroup,
    Loopback,
    Unspecified,
}
#[derive(Clone, Copy, Debug, PartialEq)]
enum Proto {
    EchoRequest,
    IcmpError,
    UdpOpen,
    UdpClosed,
    TcpSynListen,
    TcpSynClosed,
    TcpAck,
    TcpRst,
    TcpDataEstablished,
    Unknown,
    /// IPv6 hop-by-hop header with an unrecognised option of type 10xxxxxx ("discard, always
    /// send Parameter Problem") in front of a UDP datagram for the bound port; IPv4: as Unknown
    HbhOptAlways,
    /// the same with type 11xxxxxx ("discard, send Parameter Problem only if the destination is
    /// not multicast")
    HbhOptUnicastOnly,
}
#[derive(Clone, Copy, Debug, PartialEq)]
enum L2 {
    Ours,
    Other,
    Broadcast,
    Multicast,
}

#[derive(Clone, Debug)]
struct Cell {
    eth: bool,
    v6: bool,
    l2: L2,
    src: SrcC,
    dst: DstC,
    proto: Proto,
    cfg: u8,
    joined: bool,
}

fn decode(mut i: u64) -> Cell {
    let mut take = |n: u64| {
        let r = i % n;
        i /= n;
        r
    };
    let proto = [
        Proto::EchoRequest,
        Proto::IcmpError,
        Proto::UdpOpen,
        Proto::UdpClosed,
        Proto::TcpSynListen,
        Proto::TcpSynClosed,
        Proto::TcpAck,
        Proto::TcpRst,
        Proto::TcpDataEstablished,
        Proto::Unknown,
        Proto::HbhOptAlways,
        Proto::HbhOptUnicastOnly,
    ][take(PROTO_N) as usize];
    let dst = [
        DstC::Own,
        DstC::OtherUnicast,
        DstC::SubnetBcast,
        DstC::LimitedBcast,
        DstC::AllNodes,
        DstC::SolicitedNode,
        DstC::JoinedGroup,
        DstC::UnjoinedGroup,
        DstC::Loopback,
        DstC::Unspecified,
    ][take(DST_N) as usize];
    let src = [
        SrcC::OnLink,
        SrcC::OffLink,
        SrcC::Own,
        SrcC::SubnetBcast,
        SrcC::LimitedBcast,
        SrcC::Multicast,
        SrcC::Unspecified,
        SrcC::Loopback,
    ][take(SRC_N) as usize];
    let cfg = take(CFG_N) as u8;
    let joined = take(2) == 1;
    let v6 = take(2) == 1;
    let l2i = take(5);
    let (eth, l2) = match l2i {
        0 => (false, L2::Ours),
        1 => (true, L2::Ours),
        2 => (true, L2::Other),
        3 => (true, L2::Broadcast),
        _ => (true, L2::Multicast),
    };
    Cell { eth, v6, l2, src, dst, proto, cfg, joined }
}

pub const GRID: u64 = PROTO_N * DST_N * SRC_N * CFG_N * 2 * 2 * 5;

fn v4(a: u8, b: u8, c: u8, d: u8) -> Addr {
    Addr::V4([a, b, c, d])
}
fn v6a(s: [u16; 8]) -> Addr {
    let mut b = [0u8; 16];
    for i in 0..8 {
        b[2 * i] = (s[i] >> 8) as u8;
        b[2 * i + 1] = s[i] as u8;
    }
    Addr::V6(b)
}

struct Addrs {
    own: Addr,
    onlink: Addr,
    offlink: Addr,
    other_dst: Addr,
}

fn addrs(v6: bool) -> Addrs {
    if v6 {
        Addrs {
            own: v6a([0xfd00, 0, 0, 0, 0, 0, 0, 1]),
            onlink: v6a([0xfd00, 0, 0, 0, 0, 0, 0, 2]),
            offlink: v6a([0x2001, 0xdb8, 0, 0, 0, 0, 0, 9]),
            other_dst: v6a([0xfd00, 0, 0, 0, 0, 0, 0, 0x77]),
        }
    } else {
        Addrs { own: v4(192, 168, 1, 1), onlink: v4(192, 168, 1, 2), offlink: v4(10, 9, 9, 9), other_dst: v4(192, 168, 1, 77) }
    }
}

/// The instances of the address classes used by one cell.  Half of the cells use the canonical
/// instance of every class, the others draw each instance from a list that includes the ends of
/// the class's range and look-alikes from just outside the neighbouring classes, so that a filter
/// which tests a narrower or wider range than the class is noticed.
#[derive(Clone, Debug)]
struct Inst {
    off_src: Addr,
    bcast: Addr,
    mcast_src: Addr,
    loopback: Addr,
    other_dst: Addr,
    joined_group: Addr,
    unjoined_group: Addr,
}

fn instances(v6: bool, two_v4_subnets: bool, canonical: bool, rng: &mut Rng) -> Inst {
    let mut pick = |xs: &[Addr]| if canonical { xs[0] } else { *rng.pick(xs) };
    if v6 {
        Inst {
            off_src: pick(&[
                v6a([0x2001, 0xdb8, 0, 0, 0, 0, 0, 9]),
                v6a([0x2000, 0, 0, 0, 0, 0, 0, 1]),
                v6a([0x3fff, 0xffff, 0xffff, 0xffff, 0xffff, 0xffff, 0xffff, 0xfffe]),
                v6a([0xfd00, 0, 0, 1, 0, 0, 0, 1]),
                v6a([0xfc00, 0, 0, 0, 0, 0, 0, 1]),
                v6a([0xfec0, 0, 0, 0, 0, 0, 0, 1]),
                v6a([0xfeff, 0xffff, 0, 0, 0, 0, 0, 1]),
                v6a([0x0100, 0, 0, 0, 0, 0, 0, 1]),
            ]),
            bcast: v6a([0xff02, 0, 0, 0, 0, 0, 0, 1]),
            mcast_src: pick(&[
                v6a([0xff05, 0, 0, 0, 0, 0, 0, 0x1234]),
                v6a([0xff02, 0, 0, 0, 0, 0, 0, 1]),
                v6a([0xff00, 0, 0, 0, 0, 0, 0, 0]),
                v6a([0xffff; 8]),
                v6a([0xff0e, 0, 0, 0, 0, 0, 0, 1]),
                v6a([0xff02, 0, 0, 0, 0, 1, 0xff00, 2]),
            ]),
            loopback: v6a([0, 0, 0, 0, 0, 0, 0, 1]),
            other_dst: pick(&[
                v6a([0xfd00, 0, 0, 0, 0, 0, 0, 0x77]),
                v6a([0xfd00, 0, 0, 0, 0, 0, 0, 2]),
                v6a([0xfd00, 0, 0, 0, 0, 0, 0, 0]),
                v6a([0xfd00, 0, 0, 0, 0, 0, 0, 0x101]),
                v6a([0xfd00, 0, 0, 1, 0, 0, 0, 1]),
                v6a([0xfd00, 0, 0, 0, 0, 0, 1, 1]),
                v6a([0xfd01, 0, 0, 0, 0, 0, 0, 1]),
                v6a([0x2001, 0xdb8, 0, 0, 0, 0, 0, 1]),
                v6a([0xfe80, 0, 0, 0, 0, 0, 0, 1]),
                v6a([0xfeff, 0, 0, 0, 0, 0, 0, 1]),
            ]),
            joined_group: pick(&[v6a([0xff02, 0, 0, 0, 0, 0, 0, 0xfb]), v6a([0xff05, 0, 0, 0, 0, 0, 1, 3]), v6a([0xff0e, 0, 0, 0, 0, 0, 0x1234, 0x5678]), v6a([0xff02, 0, 0, 0, 0, 1, 0xff00, 2])]),
            unjoined_group: pick(&[
                v6a([0xff05, 0, 0, 0, 0, 0, 0, 0x1234]),
                v6a([0xff02, 0, 0, 0, 0, 0, 0, 2]),
                v6a([0xff02, 0, 0, 0, 0, 0, 0, 0xfc]),
                v6a([0xff02, 0, 0, 0, 0, 1, 0xff00, 3]),
                v6a([0xff02, 0, 0, 0, 0, 1, 0xff01, 1]),
                v6a([0xff02, 0, 0, 0, 0, 0, 0xff00, 1]),
                v6a([0xff0e, 0, 0, 0, 0, 0, 0, 0xfb]),
                v6a([0xff05, 0, 0, 0, 0, 0, 0, 1]),
                v6a([0xff02, 0, 0, 0, 0, 0, 0, 0x16]),
                v6a([0xffff, 0, 0, 0, 0, 0, 0, 1]),
            ]),
        }
    } else {
        Inst {
            off_src: pick(&[
                v4(10, 9, 9, 9),
                v4(8, 8, 8, 8),
                v4(1, 0, 0, 1),
                v4(126, 255, 255, 254),
                v4(128, 0, 0, 1),
                v4(191, 255, 0, 1),
                v4(192, 168, 2, 1),
                v4(192, 168, 0, 254),
                v4(223, 255, 255, 254),
                v4(169, 254, 1, 1),
            ]),
            bcast: if two_v4_subnets { pick(&[v4(192, 168, 1, 255), v4(10, 77, 255, 255)]) } else { v4(192, 168, 1, 255) },
            mcast_src: pick(&[v4(224, 1, 2, 3), v4(224, 0, 0, 1), v4(224, 0, 0, 0), v4(239, 255, 255, 255), v4(232, 1, 1, 1), v4(224, 0, 0, 251)]),
            loopback: pick(&[v4(127, 0, 0, 1), v4(127, 0, 0, 2), v4(127, 1, 2, 3), v4(127, 255, 255, 254)]),
            other_dst: pick(&[
                v4(192, 168, 1, 77),
                v4(192, 168, 1, 2),
                v4(192, 168, 1, 254),
                v4(192, 168, 1, 3),
                v4(192, 168, 2, 1),
                v4(192, 168, 2, 255),
                v4(192, 169, 1, 1),
                v4(10, 0, 0, 1),
                v4(223, 255, 255, 254),
                v4(1, 1, 1, 1),
            ]),
            joined_group: pick(&[v4(224, 0, 0, 251), v4(239, 1, 2, 3), v4(224, 0, 1, 1), v4(232, 7, 7, 7)]),
            unjoined_group: pick(&[
                v4(224, 1, 2, 3),
                v4(224, 0, 0, 2),
                v4(224, 0, 0, 250),
                v4(224, 0, 0, 252),
                v4(224, 0, 0, 22),
                v4(224, 0, 1, 251),
                v4(239, 255, 255, 255),
                v4(239, 0, 0, 1),
                v4(225, 0, 0, 1),
            ]),
        }
    }
}

fn src_addr(c: &Cell, i: &Inst) -> Addr {
    let a = addrs(c.v6);
    match (c.src, c.v6) {
        (SrcC::OnLink, _) => a.onlink,
        (SrcC::OffLink, _) => i.off_src,
        (SrcC::Own, _) => a.own,
        (SrcC::SubnetBcast, false) => i.bcast,
        (SrcC::LimitedBcast, false) => v4(255, 255, 255, 255),
        (SrcC::Multicast, _) => i.mcast_src,
        (SrcC::Unspecified, false) => v4(0, 0, 0, 0),
        (SrcC::Loopback, _) => i.loopback,
        // IPv6 has no broadcast: the broadcast classes map to multicast sources
        (SrcC::SubnetBcast, true) | (SrcC::LimitedBcast, true) => v6a([0xff02, 0, 0, 0, 0, 0, 0, 1]),
        (SrcC::Unspecified, true) => v6a([0; 8]),
    }
}

fn dst_addr(c: &Cell, i: &Inst) -> Addr {
    let a = addrs(c.v6);
    match (c.dst, c.v6) {
        (DstC::Own, _) => a.own,
        (DstC::OtherUnicast, _) => i.other_dst,
        (DstC::SubnetBcast, false) => i.bcast,
        (DstC::LimitedBcast, false) => v4(255, 255, 255, 255),
        (DstC::AllNodes, false) | (DstC::SolicitedNode, false) => v4(224, 0, 0, 1),
        (DstC::JoinedGroup, _) => i.joined_group,
        (DstC::UnjoinedGroup, _) => i.unjoined_group,
        (DstC::Loopback, _) => i.loopback,
        (DstC::Unspecified, false) => v4(0, 0, 0, 0),
        (DstC::SubnetBcast, true) | (DstC::LimitedBcast, true) | (DstC::AllNodes, true) => v6a([0xff02, 0, 0, 0, 0, 0, 0, 1]),
        (DstC::SolicitedNode, true) => v6a([0xff02, 0, 0, 0, 0, 1, 0xff00, 1]),
        (DstC::Unspecified, true) => v6a([0; 8]),
    }
}

fn is_mcast_or_bcast_dst(c: &Cell) -> bool {
    matches!(c.dst, DstC::SubnetBcast | DstC::LimitedBcast | DstC::AllNodes | DstC::SolicitedNode | DstC::JoinedGroup | DstC::UnjoinedGroup)
}
fn non_unicast_src(c: &Cell) -> bool {
    matches!(c.src, SrcC::SubnetBcast | SrcC::LimitedBcast | SrcC::Multicast | SrcC::Unspecified)
}

/// is the packet addressed to the interface (independent of the stack's own filters)
fn addressed_to_us(c: &Cell) -> bool {
    let l2_ok = !c.eth || c.l2 != L2::Other;
    let ip_ok = match c.dst {
        DstC::Own => true,
        DstC::SubnetBcast | DstC::LimitedBcast | DstC::AllNodes | DstC::SolicitedNode => true,
        DstC::JoinedGroup => c.joined,
        DstC::OtherUnicast | DstC::UnjoinedGroup | DstC::Loopback | DstC::Unspecified => false,
    };
    l2_ok && ip_ok
}

const LISTEN_PORT: u16 = 80;
const UDP_PORT: u16 = 5353;
const PEER_PORT: u16 = 40000;
const EST_PORT: u16 = 8080;

struct Socks {
    tcp_listen: Option<SocketHandle>,
    tcp_est: Option<SocketHandle>,
    udp: Option<SocketHandle>,
    icmp: Option<SocketHandle>,
    raw: Option<SocketHandle>,
}

#[derive(Clone, Debug, PartialEq)]
struct Snap {
    listen_state: Option<tcp::State>,
    est_state: Option<tcp::State>,
    est_rxq: usize,
    udp_can_recv: bool,
    icmp_can_recv: bool,
}

fn snap(h: &mut Host, s: &Socks) -> Snap {
    Snap {
        listen_state: s.tcp_listen.map(|x| h.sockets.get::<tcp::Socket>(x).state()),
        est_state: s.tcp_est.map(|x| h.sockets.get::<tcp::Socket>(x).state()),
        est_rxq: s.tcp_est.map(|x| h.sockets.get::<tcp::Socket>(x).recv_queue()).unwrap_or(0),
        udp_can_recv: s.udp.map(|x| h.sockets.get::<udp::Socket>(x).can_recv()).unwrap_or(false),
        icmp_can_recv: s.icmp.map(|x| h.sockets.get::<icmp::Socket>(x).can_recv()).unwrap_or(false),
    }
}

fn wrap_l2(c: &Cell, dst_ip: &Addr, ip_packet: Vec<u8>) -> Vec<u8> {
    if !c.eth {
        return ip_packet;
    }
    let dmac = match c.l2 {
        L2::Ours => MY_MAC,
        L2::Other => OTHER_MAC,
        L2::Broadcast => [0xff; 6],
        L2::Multicast => match dst_ip {
            Addr::V4(a) if dst_ip.is_multicast() => mcast_mac_v4(a),
            Addr::V6(a) if dst_ip.is_multicast() => mcast_mac_v6(a),
            Addr::V4(_) => [0x01, 0x00, 0x5e, 0x00, 0x00, 0x01],
            Addr::V6(_) => [0x33, 0x33, 0, 0, 0, 1],
        },
    };
    eth(&dmac, &PEER_MAC, if dst_ip.is_v4() { ET_IPV4 } else { ET_IPV6 }, &ip_packet)
}

fn inject(h: &mut Host, now: Micros, frame: Vec<u8>) -> Vec<TxRec> {
    h.dev.rx.push_back(frame);
    h.dev.begin_poll(now);
    h.iface.poll_ingress_single(inst(now), &mut h.dev, &mut h.sockets);
    h.iface.poll_egress(inst(now), &mut h.dev, &mut h.sockets);
    h.dev.drain_tx()
}

#[derive(Default)]
struct Emitted {
    frames: usize,
    tcp_rst: bool,
    icmp_error: bool,
    desc: Vec<String>,
}

fn classify(eth_medium: bool, recs: &[TxRec]) -> Emitted {
    let mut e = Emitted::default();
    for r in recs {
        e.frames += 1;
        let ipb: &[u8] = if eth_medium {
            match parse_eth(&r.data) {
                Ok((info, p)) if info.ethertype == ET_IPV4 || info.ethertype == ET_IPV6 => p,
                Ok((info, _)) => {
                    e.desc.push(format!("ethertype {:#06x}", info.ethertype));
                    continue;
                }
                Err(_) => continue,
            }
        } else {
            &r.data
        };
        let Ok(info) = ip::parse(ipb, false) else { continue };
        let pl = &ipb[info.payload_off..info.payload_off + info.payload_len];
        match info.proto {
            ip::PROTO_TCP => {
                if let Ok(s) = itcp::parse(&info.src, &info.dst, pl) {
                    if s.is(itcp::RST) {
                        e.tcp_rst = true;
                    }
                    e.desc.push(format!("TCP {} {}->{}", s.flag_str(), info.src, info.dst));
                }
            }
            ip::PROTO_ICMP if !pl.is_empty() => {
                if is_icmp4_error(pl[0]) {
                    e.icmp_error = true;
                }
                e.desc.push(format!("ICMPv4 type {} code {} {}->{}", pl[0], pl.get(1).copied().unwrap_or(0), info.src, info.dst));
            }
            ip::PROTO_ICMPV6 if !pl.is_empty() => {
                if is_icmp6_error(pl[0]) {
                    e.icmp_error = true;
                }
                e.desc.push(format!("ICMPv6 type {} code {} {}->{}", pl[0], pl.get(1).copied().unwrap_or(0), info.src, info.dst));
            }
            p => e.desc.push(format!("IP proto {} {}->{}", p, info.src, info.dst)),
        }
    }
    e
}

fn smol(a: &Addr) -> IpAddress {
    a.to_smol()
}

pub fn cell_case(idx: u64, rng: &mut Rng, ctx: &Ctx) -> CaseOut {
    let mut out = CaseOut::default();
    let c = decode(idx % GRID);
    let a = addrs(c.v6);
    let medium = if c.eth { Medium::Ethernet } else { Medium::Ip };
    let hw = if c.eth { eth_hw(1) } else { HardwareAddress::Ip };
    // IPv4 cells: in half of the cases the interface has a second IPv4 subnet listed *first*
    // (instead of the IPv6 address; the address table has two slots), so that the subnet under
    // test - its broadcast address in particular - is not the first one the stack looks at
    let two_v4_subnets = !c.v6 && rng.bool();
    let cidrs: Vec<IpCidr> = if two_v4_subnets {
        vec![
            IpCidr::new(IpAddress::Ipv4(Ipv4Address::new(10, 77, 0, 1)), 16),
            IpCidr::new(IpAddress::Ipv4(Ipv4Address::new(192, 168, 1, 1)), 24),
        ]
    } else {
        vec![
            IpCidr::new(IpAddress::Ipv4(Ipv4Address::new(192, 168, 1, 1)), 24),
            IpCidr::new(IpAddress::Ipv6(Ipv6Address::new(0xfd00, 0, 0, 0, 0, 0, 0, 1)), 64),
        ]
    };
    let canonical = rng.bool();
    let inst_ = instances(c.v6, two_v4_subnets, canonical, rng);
    let mut h = Host::new(medium, 1500 + if c.eth { 14 } else { 0 }, hw, rng.next_u64(), &cidrs, 0);
    h.dev.prefill = 0;
    let gw4 = Ipv4Address::new(192, 168, 1, 2);
    let gw6 = Ipv6Address::new(0xfd00, 0, 0, 0, 0, 0, 0, 2);
    let _ = h.iface.routes_mut().add_default_ipv4_route(gw4);
    let _ = h.iface.routes_mut().add_default_ipv6_route(gw6);
    if c.joined {
        // (the group of the other IP version is joined as well, as before)
        let _ = h.iface.join_multicast_group(if c.v6 { IpAddress::Ipv4(Ipv4Address::new(224, 0, 0, 251)) } else { smol(&inst_.joined_group) });
        let _ = h.iface.join_multicast_group(if c.v6 { smol(&inst_.joined_group) } else { IpAddress::Ipv6(Ipv6Address::new(0xff02, 0, 0, 0, 0, 0, 0, 0xfb)) });
    }
    // ---- sockets
    let mut s = Socks { tcp_listen: None, tcp_est: None, udp: None, icmp: None, raw: None };
    let own = smol(&a.own);
    let specific = c.cfg == 2;
    if c.cfg >= 1 {
        let mut t = tcp::Socket::new(tcp::SocketBuffer::new(vec![0; 2048]), tcp::SocketBuffer::new(vec![0; 2048]));
        let ep = if specific { IpListenEndpoint { addr: Some(own), port: LISTEN_PORT } } else { IpListenEndpoint { addr: None, port: LISTEN_PORT } };
        t.listen(ep).unwrap();
        s.tcp_listen = Some(h.sockets.add(t));
        let mut u = udp::Socket::new(
            udp::PacketBuffer::new(vec![udp::PacketMetadata::EMPTY; 4], vec![0; 2048]),
            udp::PacketBuffer::new(vec![udp::PacketMetadata::EMPTY; 4], vec![0; 2048]),
        );
        let ep = if specific { IpListenEndpoint { addr: Some(own), port: UDP_PORT } } else { IpListenEndpoint { addr: None, port: UDP_PORT } };
        u.bind(ep).unwrap();
        s.udp = Some(h.sockets.add(u));
        let mut ic = icmp::Socket::new(
            icmp::PacketBuffer::new(vec![icmp::PacketMetadata::EMPTY; 4], vec![0; 2048]),
            icmp::PacketBuffer::new(vec![icmp::PacketMetadata::EMPTY; 4], vec![0; 2048]),
        );
        ic.bind(icmp::Endpoint::Udp(IpListenEndpoint { addr: None, port: UDP_PORT })).unwrap();
        s.icmp = Some(h.sockets.add(ic));
    }
    if c.cfg == 3 {
        let r = raw::Socket::new(
            Some(if c.v6 { IpVersion::Ipv6 } else { IpVersion::Ipv4 }),
            Some(IpProtocol::Unknown(0xfd)),
            raw::PacketBuffer::new(vec![raw::PacketMetadata::EMPTY; 4], vec![0; 2048]),
            raw::PacketBuffer::new(vec![raw::PacketMetadata::EMPTY; 4], vec![0; 2048]),
        );
        s.raw = Some(h.sockets.add(r));
    }
    let mut now: Micros = 1_000;
    // warm-up: flush start-up frames (MLD/IGMP reports ...) and teach the stack the peer's MAC
    for _ in 0..4 {
        let _ = h.poll(now);
        now += 1_000_000;
    }
    if c.eth {
        let arp = build_arp(&Arp { op: 1, sha: PEER_MAC, spa: [192, 168, 1, 2], tha: [0; 6], tpa: [192, 168, 1, 1] });
        let _ = inject(&mut h, now, eth(&[0xff; 6], &PEER_MAC, ET_ARP, &arp));
        let (Addr::V6(me6), Addr::V6(peer6)) = (addrs(true).own, addrs(true).onlink) else { unreachable!() };
        let sol = solicited_node(&me6);
        let ns = build_ndisc(&Addr::V6(peer6), &Addr::V6(sol), 135, 0, &me6, Some(1), &PEER_MAC);
        let p = ip::build(&Addr::V6(peer6), &Addr::V6(sol), ip::PROTO_ICMPV6, 255, &ns);
        let _ = inject(&mut h, now, eth(&mcast_mac_v6(&sol), &PEER_MAC, ET_IPV6, &p));
        now += 1000;
    }
    // ---- an established connection with the on-link peer (configuration 1 and 3)
    let mut est_seq: (u32, u32) = (0, 0); // (peer next seq, socket next seq)
    if c.cfg == 1 || c.cfg == 3 {
        let mut t = tcp::Socket::new(tcp::SocketBuffer::new(vec![0; 2048]), tcp::SocketBuffer::new(vec![0; 2048]));
        t.listen(IpListenEndpoint { addr: None, port: EST_PORT }).unwrap();
        let hnd = h.sockets.add(t);
        let cell0 = Cell { l2: L2::Ours, ..c.clone() };
        let syn = itcp::Seg { sport: PEER_PORT, dport: EST_PORT, seq: 1000, flags: itcp::SYN, wnd: 4096, mss: Some(1000), ..Default::default() };
        let p = ip::build(&a.onlink, &a.own, ip::PROTO_TCP, 64, &itcp::build(&a.onlink, &a.own, &syn));
        let r = inject(&mut h, now, wrap_l2(&cell0, &a.own, p));
        let mut iss = None;
        for f in &r {
            let ipb: &[u8] = if c.eth { &f.data[14.min(f.data.len())..] } else { &f.data };
            if let Ok(info) = ip::parse(ipb, false) {
                if info.proto == ip::PROTO_TCP {
                    if let Ok(sg) = itcp::parse(&info.src, &info.dst, &ipb[info.payload_off..info.payload_off + info.payload_len]) {
                        if sg.is(itcp::SYN) {
                            iss = Some(sg.seq);
                        }
                    }
                }
            }
        }
        if let Some(iss) = iss {
            let ack = itcp::Seg { sport: PEER_PORT, dport: EST_PORT, seq: 1001, ack: iss.wrapping_add(1), flags: itcp::ACK, wnd: 4096, ..Default::default() };
            let p = ip::build(&a.onlink, &a.own, ip::PROTO_TCP, 64, &itcp::build(&a.onlink, &a.own, &ack));
            let _ = inject(&mut h, now, wrap_l2(&cell0, &a.own, p));
            est_seq = (1001, iss.wrapping_add(1));
            if h.sockets.get::<tcp::Socket>(hnd).state() == tcp::State::Established {
                s.tcp_est = Some(hnd);
            }
        }
        if s.tcp_est.is_none() {
            out.harness_errors.push(format!("could not establish the helper connection in cell {:?}", c));
            return out;
        }
        now += 1000;
    }
    // ---- the packet under test
    let src = src_addr(&c, &inst_);
    let dst = dst_addr(&c, &inst_);
    let sport = PEER_PORT;
    let plen = rng.urange(1, 40);
    let payload: Vec<u8> = rng.bytes(plen);
    let (proto_no, l4): (u8, Vec<u8>) = match c.proto {
        Proto::EchoRequest => {
            if c.v6 {
                (ip::PROTO_ICMPV6, build_icmp6(&src, &dst, 128, 0, [0x12, 0x34, 0, 1], &payload))
            } else {
                (ip::PROTO_ICMP, build_icmp4(8, 0, [0x12, 0x34, 0, 1], &payload))
            }
        }
        Proto::IcmpError => {
            // destination unreachable quoting a UDP datagram "we" sent from the bound port
            let q_udp = build_udp(&dst, &src, UDP_PORT, 9999, b"quoted!!");
            let quoted = ip::build(&dst, &src, ip::PROTO_UDP, 64, &q_udp);
            if c.v6 {
                (ip::PROTO_ICMPV6, build_icmp6(&src, &dst, 1, 4, [0; 4], &quoted))
            } else {
                (ip::PROTO_ICMP, build_icmp4(3, 3, [0; 4], &quoted))
            }
        }
        Proto::UdpOpen => (ip::PROTO_UDP, build_udp(&src, &dst, sport, UDP_PORT, &payload)),
        Proto::UdpClosed => (ip::PROTO_UDP, build_udp(&src, &dst, sport, 6000 + rng.below(1000) as u16, &payload)),
        Proto::TcpSynListen => (ip::PROTO_TCP, itcp::build(&src, &dst, &itcp::Seg { sport: sport + 1, dport: LISTEN_PORT, seq: rng.u32(), flags: itcp::SYN, wnd: 1000, ..Default::default() })),
        Proto::TcpSynClosed => (ip::PROTO_TCP, itcp::build(&src, &dst, &itcp::Seg { sport: sport + 1, dport: 7000 + rng.below(1000) as u16, seq: rng.u32(), flags: itcp::SYN, wnd: 1000, ..Default::default() })),
        Proto::TcpAck => (ip::PROTO_TCP, itcp::build(&src, &dst, &itcp::Seg { sport: sport + 2, dport: LISTEN_PORT, seq: rng.u32(), ack: rng.u32(), flags: itcp::ACK, wnd: 1000, ..Default::default() })),
        Proto::TcpRst => (ip::PROTO_TCP, itcp::build(&src, &dst, &itcp::Seg { sport: sport + 2, dport: 7000 + rng.below(1000) as u16, seq: rng.u32(), ack: rng.u32(), flags: itcp::RST | itcp::ACK, wnd: 0, ..Default::default() })),
        Proto::TcpDataEstablished => (
            ip::PROTO_TCP,
            itcp::build(&src, &dst, &itcp::Seg { sport: PEER_PORT, dport: EST_PORT, seq: est_seq.0, ack: est_seq.1, flags: itcp::ACK | itcp::PSH, wnd: 4096, payload: payload.clone(), ..Default::default() }),
        ),
        Proto::Unknown => (0xfd, payload.clone()),
        Proto::HbhOptAlways | Proto::HbhOptUnicastOnly if c.v6 => {
            let ty = if c.proto == Proto::HbhOptAlways { 0x80 } else { 0xc0 } | (0x0a + rng.below(0x14) as u8);
            let mut h = vec![ip::PROTO_UDP, 0, ty, 4];
            h.extend_from_slice(&rng.bytes(4));
            h.extend_from_slice(&build_udp(&src, &dst, sport, UDP_PORT, &payload));
            (0, h)
        }
        Proto::HbhOptAlways | Proto::HbhOptUnicastOnly => (0xfd, payload.clone()),
    };
    let ip_packet = ip::build(&src, &dst, proto_no, 64, &l4);
    let frame = wrap_l2(&c, &dst, ip_packet);
    let before = snap(&mut h, &s);
    let res = catch(|| inject(&mut h, now, frame.clone()));
    let recs = match res {
        Ok(r) => r,
        Err(p) => {
            out.violate(Violation::new(format!("C11:{}", p.signature()), format!("interface panicked in cell {:?}: {}:{} {}", c, p.file, p.line, p.msg)));
            return out;
        }
    };
    let after = snap(&mut h, &s);
    let em = classify(c.eth, &recs);
    out.evals = 1;
    let ours = addressed_to_us(&c);
    let tcp_changed = before.listen_state != after.listen_state || before.est_state != after.est_state || before.est_rxq != after.est_rxq;
    let delta = tcp_changed || before.udp_can_recv != after.udp_can_recv || before.icmp_can_recv != after.icmp_can_recv;
    let what = format!(
        "cell {:?}: packet {} -> {} ({:?}); socket delta: {:?} -> {:?}; frames emitted: {:?}",
        c, src, dst, c.proto, before, after, em.desc
    );
    if ctx.verbose {
        println!("{}", what);
        println!("frame: {}", Json::hex(&frame).to_string());
    }
    let cls = |k: &str| format!("{}|{:?}|src:{:?}|dst:{:?}|{}{}", k, c.proto, c.src, c.dst, if c.eth { format!("eth-{:?}", c.l2) } else { "ip".into() }, if c.v6 { "|v6" } else { "|v4" });
    // R1: not addressed to us => no delivery, no answer
    let v6_loopback = c.v6 && c.dst == DstC::Loopback && (!c.eth || c.l2 != L2::Other);
    if !ours && v6_loopback && (delta || em.frames > 0) {
        out.violate(Violation::new(
            "not-addressed:ipv6-loopback-destination-accepted-from-the-network",
            format!("a packet for ::1 arriving from the network was delivered or answered. {}", what),
        ));
    } else if !ours {
        if delta {
            out.violate(Violation::new(format!("not-addressed:delivered:{:?}:dst:{:?}:{}", c.proto, c.dst, if c.eth { format!("l2-{:?}", c.l2) } else { "ip".into() }), format!("traffic not addressed to the interface changed a socket. {}", what)));
        }
        if em.frames > 0 {
            out.violate(Violation::new(format!("not-addressed:answered:{:?}:dst:{:?}:{}", c.proto, c.dst, if c.eth { format!("l2-{:?}", c.l2) } else { "ip".into() }), format!("traffic not addressed to the interface was answered. {}", what)));
        }
    }
    // R2: sockets only see what matches their endpoint
    if before.udp_can_recv != after.udp_can_recv {
        // a socket bound to a specific address also takes datagrams sent to a broadcast or
        // multicast address the interface listens on (deliberate, documented in udp::Socket::accepts)
        let dst_matches = !specific || dst == a.own || is_mcast_or_bcast_dst(&c);
        if c.proto != Proto::UdpOpen || !dst_matches {
            out.violate(Violation::new(format!("endpoint-mismatch:udp:{:?}", c.proto), format!("UDP socket bound to {}port {} received a datagram that does not match. {}", if specific { "own address, " } else { "" }, UDP_PORT, what)));
        }
    }
    if before.icmp_can_recv != after.icmp_can_recv && c.proto != Proto::IcmpError {
        out.violate(Violation::new(format!("endpoint-mismatch:icmp:{:?}", c.proto), format!("ICMP socket bound to UDP port {} received something else. {}", UDP_PORT, what)));
    }
    if before.listen_state != after.listen_state {
        let dst_matches = !specific || dst == a.own;
        if c.proto != Proto::TcpSynListen || !dst_matches {
            out.violate(Violation::new(format!("endpoint-mismatch:tcp-listen:{:?}", c.proto), format!("listening socket changed state on a segment that does not match its endpoint. {}", what)));
        }
    }
    if (before.est_state != after.est_state || before.est_rxq != after.est_rxq) && !(c.proto == Proto::TcpDataEstablished && src == a.onlink && dst == a.own) {
        out.violate(Violation::new(format!("endpoint-mismatch:tcp-established:{:?}", c.proto), format!("established socket affected by a segment outside its 4-tuple. {}", what)));
    }
    // R3: no RST / ICMP error for broadcast/multicast destinations or non-unicast sources
    if is_mcast_or_bcast_dst(&c) || non_unicast_src(&c) {
        if em.tcp_rst {
            out.violate(Violation::new(
                format!("reply:rst:{}:{}", if is_mcast_or_bcast_dst(&c) { format!("dst-{:?}", c.dst) } else { format!("src-{:?}", c.src) }, if c.v6 { "v6" } else { "v4" }),
                format!("TCP RST sent in answer to a packet with a broadcast/multicast destination or non-unicast source. {}", what),
            ));
        }
        if em.icmp_error && c.v6 && c.proto == Proto::Unknown && is_mcast_or_bcast_dst(&c) && !non_unicast_src(&c) && em.desc.iter().any(|d| d.starts_with("ICMPv6 type 4 code 1")) {
            out.violate(Violation::new(
                "reply:icmpv6-parameter-problem-unrecognized-next-header-to-multicast-destination",
                format!("ICMPv6 Parameter Problem (unrecognized Next Header) sent in answer to a packet addressed to a multicast group. {}", what),
            ));
        } else if em.icmp_error && c.v6 && c.proto == Proto::HbhOptAlways && is_mcast_or_bcast_dst(&c) && !non_unicast_src(&c) && em.desc.iter().any(|d| d.starts_with("ICMPv6 type 4 code 2")) {
            out.violate(Violation::new(
                "reply:icmpv6-parameter-problem-option-type-10xxxxxx-to-multicast-destination",
                format!("ICMPv6 Parameter Problem (unrecognized option of type 10xxxxxx) sent in answer to a packet addressed to a multicast group. {}", what),
            ));
        } else if em.icmp_error {
            out.violate(Violation::new(
                format!("reply:icmp-error:{:?}:{}:{}", c.proto, if is_mcast_or_bcast_dst(&c) { format!("dst-{:?}", c.dst) } else { format!("src-{:?}", c.src) }, if c.v6 { "v6" } else { "v4" }),
                format!("ICMP error sent in answer to a packet with a broadcast/multicast destination or non-unicast source. {}", what),
            ));
        }
    }
    // R4: never answer an ICMP error or an RST with an error / RST
    if matches!(c.proto, Proto::IcmpError | Proto::TcpRst) && (em.tcp_rst || em.icmp_error) {
        out.violate(Violation::new(format!("reply:error-to-error:{:?}", c.proto), format!("an ICMP error / TCP reset was answered with an error or reset. {}", what)));
    }
    // R5: TCP to broadcast / multicast / loopback never changes a socket
    let tcp_proto = matches!(c.proto, Proto::TcpSynListen | Proto::TcpSynClosed | Proto::TcpAck | Proto::TcpRst | Proto::TcpDataEstablished);
    if tcp_proto && (is_mcast_or_bcast_dst(&c) || c.dst == DstC::Loopback) && tcp_changed && !v6_loopback {
        out.violate(Violation::new(format!("tcp-state:non-unicast-destination:dst-{:?}:{}", c.dst, if c.v6 { "v6" } else { "v4" }), format!("a TCP segment addressed to a broadcast/multicast/loopback destination changed a socket. {}", what)));
    }
    out.class(cls(if !ours { "dropped-or-ignored" } else if delta { "delivered" } else if em.frames > 0 { "answered" } else { "silent" }));
    out.count("cells", 1);
    out.count("cells_with_non_canonical_class_instances", {
        let ci = instances(c.v6, false, true, rng);
        (src != src_addr(&c, &ci) || dst != dst_addr(&c, &ci)) as u64
    });
    out.count("cells_not_addressed_to_us", (!ours) as u64);
    out.count("cells_delivered", delta as u64);
    out.count("cells_answered", (em.frames > 0) as u64);
    out.count("rst_seen", em.tcp_rst as u64);
    out.count("icmp_errors_seen", em.icmp_error as u64);
    if idx == 0 {
        out.sample = Some(Json::obj().set("cell", Json::s(format!("{:?}", c))).set("frame", Json::hex(&frame)).set("observed", Json::s(what)));
    }
    out
}

fn post(sum: &mut Summary) {
    sum.exhaustive = true;
    sum.extra.push(("grid_cells".into(), Json::u(GRID)));
    sum.extra.push(("exhaustive_scope".into(), Json::s("every cell of the class grid is visited at least once (quick: once; thorough: several seeds per cell for ports/payloads)")));
}

pub fn monitor() -> super::Monitor {
    super::Monitor {
        id: "C11",
        rule: "table-driven grid, one fresh interface per cell: medium (IP, Ethernet with link-layer destination ours/other station/broadcast/multicast) x IPv4/IPv6 x source class (on-link, off-link, own, subnet/limited broadcast, multicast, unspecified, loopback) x destination class (own, other unicast, subnet/limited broadcast, all-nodes, solicited-node, joined/unjoined group, loopback, unspecified) x protocol (echo request, ICMP error, UDP open/closed port, TCP SYN to listener/closed port, ACK, RST, data on an established connection, unknown protocol) x socket configuration x group joined. Judged with a decision table: not addressed to us => no TCP/UDP/ICMP socket delta and no frame; socket deltas only for packets matching the bound endpoint; broadcast/multicast destination or non-unicast source => no RST and no ICMP error emitted; ICMP error or RST in => no error/RST out; TCP to broadcast/multicast/loopback => no TCP socket change. A class is (outcome, protocol, source class, destination class, link-layer class, IP version).",
        assumptions: &[
            "any_ip is off (with any_ip the notion of 'addressed to the interface' changes by configuration)",
            "echo replies to broadcast pings, ARP/NDISC answers and IGMP/MLD reports are not errors and are not restricted",
            "'broadcast or multicast destination' is judged at the IP layer",
            "raw sockets are outside the delivery clause of the statement",
        ],
        floors: &[("pan_cells_other_pan", 50), ("pan_cells_delivered", 20), ("pan_cells_answered", 20), ("cells", 60_000), ("cells_with_non_canonical_class_instances", 5_000), ("cells_delivered", 500), ("cells_answered", 2000), ("rst_seen", 200), ("icmp_errors_seen", 200)],
        parts: vec![
            super::Part { name: "grid", cases: |c| if c.thorough() { GRID * 8 } else { GRID }, f: cell_case },
            super::Part { name: "pan", cases: |c| if c.thorough() { 144 * 50 } else { 144 * 4 }, f: pan_case },
        ],
        post: Some(post),
    }
}

// ------------------------------------------------------------------ IEEE 802.15.4: frames for another PAN

use smoltcp::iface::Config;
use smoltcp::wire::{
    Ieee802154Address, Ieee802154Frame, Ieee802154FrameType, Ieee802154FrameVersion, Ieee802154Pan, Ieee802154Repr, SixlowpanIphcPacket, SixlowpanIphcRepr,
    SixlowpanNextHeader, SixlowpanUdpNhcPacket, SixlowpanUdpNhcRepr, UdpRepr,
};

const MY_EXT: [u8; 8] = [0x02, 0, 0, 0, 0, 0, 0, 0x01];
const PEER_EXT: [u8; 8] = [0x02, 0, 0, 0, 0, 0, 0, 0x02];

fn ll_from_ext(e: &[u8; 8]) -> [u8; 16] {
    let mut a = [0u8; 16];
    a[0] = 0xfe;
    a[1] = 0x80;
    a[8..].copy_from_slice(e);
    a[8] ^= 0x02;
    a
}

/// The frames are built with smoltcp's own emitters: this part judges what the interface
/// does with well-formed frames, not the frames themselves.
pub fn pan_case(idx: u64, rng: &mut Rng, ctx: &Ctx) -> CaseOut {
    let mut out = CaseOut::default();
    let mut i = idx;
    let mut take = |n: u64| {
        let r = i % n;
        i /= n;
        r
    };
    let dst_pan = [0xbeefu16, 0x1234, 0xffff][take(3) as usize];
    let ll_dst = take(3); // 0 ours, 1 other station, 2 broadcast short address
    let ip_dst_mcast = take(2) == 1;
    let udp = take(2) == 1;
    let iface_pan = if take(2) == 0 { Some(Ieee802154Pan(0xbeef)) } else { None };
    let src_pan_same = take(2) == 0;

    let mut dev = SimDevice::new(Medium::Ieee802154, 125);
    dev.prefill = 0;
    let mut cfg = Config::new(HardwareAddress::Ieee802154(Ieee802154Address::Extended(MY_EXT)));
    cfg.random_seed = rng.next_u64();
    cfg.pan_id = iface_pan;
    let my_ll = ll_from_ext(&MY_EXT);
    let peer_ll = ll_from_ext(&PEER_EXT);
    let mut h = Host::with_config(dev, cfg, &[IpCidr::new(IpAddress::Ipv6(Ipv6Address::from(my_ll)), 64)], 0);
    let mut u = udp::Socket::new(
        udp::PacketBuffer::new(vec![udp::PacketMetadata::EMPTY; 4], vec![0; 1024]),
        udp::PacketBuffer::new(vec![udp::PacketMetadata::EMPTY; 4], vec![0; 1024]),
    );
    u.bind(UDP_PORT).unwrap();
    let uh = h.sockets.add(u);
    let mut now: Micros = 1000;
    for _ in 0..3 {
        let _ = h.poll(now);
        now += 2_000_000;
    }
    let dst_ip: [u8; 16] = if ip_dst_mcast { [0xff, 0x02, 0, 0, 0, 0, 0, 0, 0, 0, 0, 0, 0, 0, 0, 1] } else { my_ll };
    let ll_dst_addr = match ll_dst {
        0 => Ieee802154Address::Extended(MY_EXT),
        1 => Ieee802154Address::Extended([0x02, 0, 0, 0, 0, 0, 0, 0x99]),
        _ => Ieee802154Address::BROADCAST,
    };
    let ieee = Ieee802154Repr {
        frame_type: Ieee802154FrameType::Data,
        security_enabled: false,
        frame_pending: false,
        ack_request: false,
        sequence_number: Some(rng.u8()),
        pan_id_compression: src_pan_same,
        frame_version: Ieee802154FrameVersion::Ieee802154_2003,
        dst_pan_id: Some(Ieee802154Pan(dst_pan)),
        dst_addr: Some(ll_dst_addr),
        src_pan_id: if src_pan_same { Some(Ieee802154Pan(dst_pan)) } else { Some(Ieee802154Pan(0x4321)) },
        src_addr: Some(Ieee802154Address::Extended(PEER_EXT)),
    };
    let src_a = Addr::V6(peer_ll);
    let dst_a = Addr::V6(dst_ip);
    let payload = rng.bytes(12);
    let iphc = SixlowpanIphcRepr {
        src_addr: Ipv6Address::from(peer_ll),
        ll_src_addr: Some(Ieee802154Address::Extended(PEER_EXT)),
        dst_addr: Ipv6Address::from(dst_ip),
        ll_dst_addr: Some(ll_dst_addr),
        next_header: if udp { SixlowpanNextHeader::Compressed } else { SixlowpanNextHeader::Uncompressed(IpProtocol::Icmpv6) },
        hop_limit: 64,
        ecn: None,
        dscp: None,
        flow_label: None,
    };
    let upper: Vec<u8> = if udp {
        let r = SixlowpanUdpNhcRepr(UdpRepr { src_port: PEER_PORT, dst_port: UDP_PORT });
        let mut b = vec![0u8; r.header_len() + payload.len()];
        let mut p = SixlowpanUdpNhcPacket::new_unchecked(&mut b[..]);
        r.emit(&mut p, &Ipv6Address::from(peer_ll), &Ipv6Address::from(dst_ip), payload.len(), |b| b.copy_from_slice(&payload), &smoltcp::phy::ChecksumCapabilities::default());
        b
    } else {
        build_icmp6(&src_a, &dst_a, 128, 0, [0x12, 0x34, 0, 1], &payload)
    };
    let mut frame = vec![0u8; ieee.buffer_len() + iphc.buffer_len() + upper.len()];
    {
        let mut f = Ieee802154Frame::new_unchecked(&mut frame[..]);
        ieee.emit(&mut f);
    }
    let o = ieee.buffer_len();
    {
        let mut p = SixlowpanIphcPacket::new_unchecked(&mut frame[o..o + iphc.buffer_len()]);
        iphc.emit(&mut p);
    }
    frame[o + iphc.buffer_len()..].copy_from_slice(&upper);
    let before = h.sockets.get::<udp::Socket>(uh).can_recv();
    let res = catch(|| inject(&mut h, now, frame.clone()));
    let recs = match res {
        Ok(r) => r,
        Err(p) => {
            out.violate(Violation::new(format!("C11:{}", p.signature()), format!("interface panicked on an 802.15.4 frame: {}:{} {}", p.file, p.line, p.msg)));
            return out;
        }
    };
    let after = h.sockets.get::<udp::Socket>(uh).can_recv();
    out.evals = 1;
    let other_pan = iface_pan.is_some() && dst_pan != 0xbeef && dst_pan != 0xffff;
    let what = format!(
        "802.15.4 frame to PAN {:#06x} (interface PAN {:?}), link destination {:?}, IPv6 destination {}, {}; UDP socket can_recv {} -> {}; {} frame(s) emitted; frame {}",
        dst_pan,
        iface_pan.map(|p| p.0),
        ll_dst_addr,
        dst_a,
        if udp { "UDP to the bound port" } else { "echo request" },
        before,
        after,
        recs.len(),
        Json::hex(&frame).to_string()
    );
    if ctx.verbose {
        println!("{}", what);
    }
    if other_pan {
        out.count("pan_cells_other_pan", 1);
        if before != after {
            out.violate(Violation::new("not-addressed:delivered:other-pan", format!("a frame for another PAN was delivered to a socket. {}", what)));
        }
        if !recs.is_empty() {
            out.violate(Violation::new("not-addressed:answered:other-pan", format!("a frame for another PAN was answered. {}", what)));
        }
    } else {
        if before != after {
            out.count("pan_cells_delivered", 1);
        }
        if !recs.is_empty() {
            out.count("pan_cells_answered", 1);
        }
    }
    out.class(format!("802154|pan:{:#06x}|iface:{:?}|ll:{}|{}|{}", dst_pan, iface_pan.map(|p| p.0), ll_dst, if udp { "udp" } else { "echo" }, if before != after { "delivered" } else if !recs.is_empty() { "answered" } else { "silent" }));
    out.count("cells", 1);
    out
}
