//! C16 – link-layer addressing: unicast IP packets only go to the hardware address
//! learned for the next hop, discovery is rate limited to one request per second,
//! queued data is not lost, and a learned address expires after 60 s without
//! confirmation.
//!
//! The harness plays every neighbor on an Ethernet segment (ARP for IPv4, NDISC
//! for IPv6).  The oracle works on the transmit log plus the frames the harness
//! delivered: it keeps its own *evidence* list (which valid ARP / NDISC message
//! for which address with which hardware address was delivered when, refreshed
//! by confirming unicast traffic) and computes the next hop independently from
//! the addresses and routes it configured.
use crate::indep::mini::*;
use crate::indep::{ip, Addr};
use crate::sim::*;
use crate::util::json::Json;
use crate::util::rng::Rng;
use crate::util::run::*;
use smoltcp::iface::{Route, SocketHandle};
use smoltcp::phy::Medium;
use smoltcp::socket::udp;
use smoltcp::time::Instant;
use smoltcp::wire::{IpAddress, IpCidr, IpEndpoint, Ipv4Address, Ipv6Address};

const MY_MAC: [u8; 6] = [0x02, 0, 0, 0, 0, 0x01];
const SEC: Micros = 1_000_000;

#[derive(Clone, Debug)]
struct Evidence {
    ip: Addr,
    mac: [u8; 6],
    at: Micros,
}

#[derive(Clone, Debug)]
struct RouteM {
    prefix: Addr,
    len: u8,
    gw: Addr,
    expires: Option<Micros>,
}

#[derive(Clone, Debug)]
struct Pending {
    at: Micros,
    frame: Vec<u8>,
    evidence: Option<(Addr, [u8; 6])>,
    what: &'static str,
}

fn v4(a: u8, b: u8, c: u8, d: u8) -> Addr {
    Addr::V4([a, b, c, d])
}
fn v6(s: [u16; 8]) -> Addr {
    let mut b = [0u8; 16];
    for i in 0..8 {
        b[2 * i] = (s[i] >> 8) as u8;
        b[2 * i + 1] = s[i] as u8;
    }
    Addr::V6(b)
}

fn prefix_match(a: &Addr, p: &Addr, len: u8) -> bool {
    let (x, y) = (a.bytes(), p.bytes());
    if x.len() != y.len() {
        return false;
    }
    let full = (len / 8) as usize;
    if x[..full] != y[..full] {
        return false;
    }
    let rem = len % 8;
    if rem == 0 {
        return true;
    }
    let m = 0xffu8 << (8 - rem);
    (x[full] & m) == (y[full] & m)
}

struct Sim {
    h: Host,
    sock: SocketHandle,
    now: Micros,
    my_addrs: Vec<(Addr, u8)>,
    routes: Vec<RouteM>,
    evidence: Vec<Evidence>,
    ever: Vec<(Addr, [u8; 6])>,
    pending: Vec<Pending>,
    last_discovery: Option<Micros>,
    /// id -> (destination, accepted at)
    sent: Vec<(u32, Addr, Micros)>,
    seen: Vec<u32>,
    next_id: u32,
    viol: Vec<Violation>,
    log: Vec<String>,
    verbose: bool,
    // statistics
    unicast_checked: u64,
    discoveries: u64,
    classes: Vec<String>,
    invalid_delivered: u64,
    expired_evidence_uses_avoided: u64,
}

fn mac_of(ip: &Addr) -> [u8; 6] {
    // the true hardware address of a simulated neighbor
    let b = ip.bytes();
    [0x02, 0x11, b[b.len() - 3], b[b.len() - 2], b[b.len() - 1], if ip.is_v4() { 4 } else { 6 }]
}

impl Sim {
    fn note(&mut self, s: String) {
        if self.verbose {
            println!("{:>12.6} {}", self.now as f64 / 1e6, s);
        }
        if self.log.len() >= 60 {
            self.log.remove(0);
        }
        self.log.push(format!("{:.6} {}", self.now as f64 / 1e6, s));
    }
    fn violate(&mut self, sig: String, desc: String) {
        if self.viol.iter().any(|v| v.sig == sig) {
            return;
        }
        if self.verbose {
            println!("{:>12.6} !!! VIOLATION [{}] {}", self.now as f64 / 1e6, sig, desc);
        }
        let v = Violation::new(sig, format!("t={:.6}s: {}", self.now as f64 / 1e6, desc)).with(Json::obj().set("history_tail", Json::Arr(self.log.iter().map(|s| Json::s(s.clone())).collect())));
        self.viol.push(v);
    }
    fn class(&mut self, c: String) {
        if !self.classes.contains(&c) {
            self.classes.push(c);
        }
    }

    fn on_link(&self, a: &Addr) -> bool {
        self.my_addrs.iter().any(|(p, l)| prefix_match(a, p, *l))
    }
    /// next hop computed independently of the stack
    fn next_hop(&self, dst: &Addr) -> Option<Addr> {
        if self.on_link(dst) {
            return Some(*dst);
        }
        self.routes
            .iter()
            .filter(|r| r.expires.map_or(true, |e| self.now <= e) && prefix_match(dst, &r.prefix, r.len) && r.prefix.is_v4() == dst.is_v4())
            .max_by_key(|r| r.len)
            .map(|r| r.gw)
    }

    fn add_evidence(&mut self, ip: Addr, mac: [u8; 6]) {
        self.evidence.push(Evidence { ip, mac, at: self.now });
        if !self.ever.contains(&(ip, mac)) {
            self.ever.push((ip, mac));
        }
    }

    fn deliver(&mut self, frame: Vec<u8>) {
        self.h.dev.rx.push_back(frame);
    }

    fn poll(&mut self) {
        let out = self.h.poll(self.now);
        for r in out.tx {
            self.on_emitted(&r.data);
        }
    }

    fn on_emitted(&mut self, f: &[u8]) {
        let Ok((e, payload)) = parse_eth(f) else { return };
        match e.ethertype {
            ET_ARP => {
                let Ok(a) = parse_arp(payload) else { return };
                if a.op == 1 {
                    self.discovery(Addr::V4(a.tpa), "arp");
                    self.note(format!("stack tx  ARP request for {}", Addr::V4(a.tpa)));
                } else {
                    self.note(format!("stack tx  ARP reply to {}", Addr::V4(a.tpa)));
                }
            }
            ET_IPV4 | ET_IPV6 => {
                let Ok(info) = ip::parse(payload, false) else { return };
                let pl = &payload[info.payload_off..info.payload_off + info.payload_len];
                let is_ns = info.proto == ip::PROTO_ICMPV6 && !pl.is_empty() && pl[0] == 135;
                if is_ns && pl.len() >= 24 {
                    let mut t = [0u8; 16];
                    t.copy_from_slice(&pl[8..24]);
                    self.discovery(Addr::V6(t), "ns");
                    self.note(format!("stack tx  NS for {} (to {})", Addr::V6(t), info.dst));
                }
                let dst_mac_unicast = e.dst[0] & 1 == 0;
                if !dst_mac_unicast || info.dst.is_multicast() {
                    return;
                }
                // ---- a unicast IP frame: the link-layer destination must be backed by evidence
                self.unicast_checked += 1;
                let id = if info.proto == ip::PROTO_UDP && pl.len() >= 12 { Some(crate::indep::be32(pl, 8)) } else { None };
                if let Some(id) = id {
                    if self.seen.contains(&id) {
                        self.violate("queue:datagram-transmitted-twice".into(), format!("datagram {} to {} appeared on the wire twice", id, info.dst));
                    }
                    self.seen.push(id);
                }
                self.note(format!("stack tx  IP {} -> {} proto {} to {:02x?}{}", info.src, info.dst, info.proto, e.dst, id.map(|i| format!(" id={}", i)).unwrap_or_default()));
                let Some(nh) = self.next_hop(&info.dst) else {
                    self.violate(
                        format!("nexthop:no-route:{}", if info.dst.is_v4() { "v4" } else { "v6" }),
                        format!("unicast packet to {} transmitted although the destination is neither on-link nor covered by an unexpired route", info.dst),
                    );
                    return;
                };
                let fresh: Vec<&Evidence> = self.evidence.iter().filter(|x| x.ip == nh && self.now - x.at < 60 * SEC).collect();
                let stale: Vec<&Evidence> = self.evidence.iter().filter(|x| x.ip == nh && x.mac == e.dst && self.now - x.at >= 60 * SEC).collect();
                if fresh.iter().any(|x| x.mac == e.dst) {
                    let via = if nh == info.dst { "direct" } else { "gateway" };
                    self.class(format!("unicast|{}|{}|evidence-age<{}s", if nh.is_v4() { "v4" } else { "v6" }, via, {
                        let age = fresh.iter().filter(|x| x.mac == e.dst).map(|x| self.now - x.at).min().unwrap_or(0) / SEC;
                        if age < 1 { 1 } else if age < 30 { 30 } else { 60 }
                    }));
                } else if !stale.is_empty() {
                    let age = stale.iter().map(|x| self.now - x.at).min().unwrap_or(0);
                    self.violate(
                        format!("expiry:address-used-after-60s:{}", if nh.is_v4() { "v4" } else { "v6" }),
                        format!(
                            "packet to {} (next hop {}) sent to {:02x?}; the last valid ARP/NDISC message or confirming traffic for that mapping was delivered {:.3} s ago (> 60 s)",
                            info.dst, nh, e.dst, age as f64 / 1e6
                        ),
                    );
                } else {
                    let known: Vec<String> = self.evidence.iter().filter(|x| x.ip == nh).map(|x| format!("{:02x?}@{:.3}", x.mac, x.at as f64 / 1e6)).collect();
                    self.violate(
                        format!("resolution:sent-to-unlearned-address:{}", if nh.is_v4() { "v4" } else { "v6" }),
                        format!(
                            "packet to {} (next hop {}) sent to hardware address {:02x?} which no valid ARP/NDISC message for {} ever announced (valid announcements: {:?})",
                            info.dst, nh, e.dst, nh, known
                        ),
                    );
                }
            }
            _ => {}
        }
    }

    fn discovery(&mut self, target: Addr, kind: &'static str) {
        self.discoveries += 1;
        if let Some(t) = self.last_discovery {
            if self.now - t < SEC {
                self.violate(
                    format!("rate:discovery-faster-than-1-per-second:{}", kind),
                    format!("discovery request for {} at {}us, only {}us after the previous request", target, self.now, self.now - t),
                );
            }
        }
        self.last_discovery = Some(self.now);
    }

    // ---- frames the harness plays
    fn arp_reply(&self, sender_ip: [u8; 4], sender_mac: [u8; 6], target_ip: [u8; 4], op: u16) -> Vec<u8> {
        let a = Arp { op, sha: sender_mac, spa: sender_ip, tha: MY_MAC, tpa: target_ip };
        eth(&MY_MAC, &sender_mac, ET_ARP, &build_arp(&a))
    }
    fn na(&self, src: [u8; 16], mac: [u8; 6], dst: [u8; 16], flags: u8, hop: u8, target: [u8; 16]) -> Vec<u8> {
        let m = build_ndisc(&Addr::V6(src), &Addr::V6(dst), 136, flags, &target, Some(2), &mac);
        eth(&MY_MAC, &mac, ET_IPV6, &ip::build(&Addr::V6(src), &Addr::V6(dst), ip::PROTO_ICMPV6, hop, &m))
    }
}

fn own4() -> [u8; 4] {
    [192, 168, 1, 1]
}
fn own6() -> [u8; 16] {
    let Addr::V6(a) = v6([0xfd00, 0, 0, 0, 0, 0, 0, 1]) else { unreachable!() };
    a
}

pub fn case(idx: u64, rng: &mut Rng, ctx: &Ctx) -> CaseOut {
    let mut out = CaseOut::default();
    let mut h = Host::new(
        Medium::Ethernet,
        1514,
        eth_hw(1),
        rng.next_u64(),
        &[
            IpCidr::new(IpAddress::Ipv4(Ipv4Address::new(192, 168, 1, 1)), 24),
            IpCidr::new(IpAddress::Ipv6(Ipv6Address::new(0xfd00, 0, 0, 0, 0, 0, 0, 1)), 64),
        ],
        0,
    );
    let mut u = udp::Socket::new(
        udp::PacketBuffer::new(vec![udp::PacketMetadata::EMPTY; 16], vec![0; 4096]),
        udp::PacketBuffer::new(vec![udp::PacketMetadata::EMPTY; 16], vec![0; 4096]),
    );
    u.bind(7000).unwrap();
    let sock = h.sockets.add(u);
    let gw4 = v4(192, 168, 1, 254);
    let gw4b = v4(192, 168, 1, 253);
    let gw6 = v6([0xfd00, 0, 0, 0, 0, 0, 0, 0xfe]);
    let route_exp: Option<Micros> = if rng.bool() { Some(rng.range(5, 200) as Micros * SEC) } else { None };
    let pref_until: Option<Micros> = match rng.below(3) {
        0 => None,
        1 => Some(rng.range(1, 5) as Micros * SEC),
        _ => route_exp.map(|e| e / 2),
    };
    h.iface.routes_mut().update(|v| {
        let _ = v.push(Route::new_ipv4_gateway(Ipv4Address::new(192, 168, 1, 254)));
        let _ = v.push(Route {
            cidr: IpCidr::new(IpAddress::Ipv4(Ipv4Address::new(172, 16, 0, 0)), 12),
            via_router: IpAddress::Ipv4(Ipv4Address::new(192, 168, 1, 253)),
            // a route stays in use until it expires, also after its preferred lifetime ran out
            preferred_until: pref_until.map(Instant::from_micros),
            expires_at: route_exp.map(Instant::from_micros),
        });
    });
    // the route table has 2 slots by default: the IPv6 default route only fits the larger build
    let mut routes = vec![
        RouteM { prefix: v4(0, 0, 0, 0), len: 0, gw: gw4, expires: None },
        RouteM { prefix: v4(172, 16, 0, 0), len: 12, gw: gw4b, expires: route_exp },
    ];
    let mut v6_route = false;
    h.iface.routes_mut().update(|v| {
        if v.push(Route::new_ipv6_gateway(Ipv6Address::new(0xfd00, 0, 0, 0, 0, 0, 0, 0xfe))).is_ok() {
            v6_route = true;
        }
    });
    if v6_route {
        routes.push(RouteM { prefix: v6([0; 8]), len: 0, gw: gw6, expires: None });
    }
    let mut s = Sim {
        h,
        sock,
        now: 1000,
        my_addrs: vec![(v4(192, 168, 1, 1), 24), (v6([0xfd00, 0, 0, 0, 0, 0, 0, 1]), 64)],
        routes,
        evidence: Vec::new(),
        ever: Vec::new(),
        pending: Vec::new(),
        last_discovery: None,
        sent: Vec::new(),
        seen: Vec::new(),
        next_id: 1,
        viol: Vec::new(),
        log: Vec::new(),
        verbose: ctx.verbose,
        unicast_checked: 0,
        discoveries: 0,
        classes: Vec::new(),
        invalid_delivered: 0,
        expired_evidence_uses_avoided: 0,
    };
    // flush start-up traffic (MLD reports, ...)
    for _ in 0..3 {
        s.poll();
        s.now += 2 * SEC;
    }
    let nneigh = rng.urange(2, 12);
    let dsts: Vec<Addr> = {
        let mut d = Vec::new();
        for i in 0..nneigh {
            d.push(v4(192, 168, 1, 10 + i as u8));
            d.push(v6([0xfd00, 0, 0, 0, 0, 0, 0, 0x10 + i as u16]));
        }
        d.push(v4(8, 8, 8, 8));
        d.push(v4(172, 16, 5, 5));
        d.push(v6([0x2001, 0xdb8, 0, 0, 0, 0, 0, 5]));
        d
    };
    let steps = rng.urange(30, 250);
    let answer_mode = rng.below(4); // 0 prompt, 1 mixed, 2 mostly late, 3 silent for a while
    for step in 0..steps {
        let final_phase = step + 40 >= steps;
        // ---- answer discoveries the stack sent (seen through last poll)
        // (requests are turned into pending answers inside `poll` through `on_emitted`; here we
        //  derive them from the log of discoveries by scanning the tx frames again is not needed:
        //  we simply answer for every destination the application has used so far)
        // deliver answers that are due
        let due: Vec<Pending> = s.pending.iter().filter(|p| p.at <= s.now).cloned().collect();
        s.pending.retain(|p| p.at > s.now);
        for p in due {
            if let Some((ipa, mac)) = p.evidence {
                s.add_evidence(ipa, mac);
            } else {
                s.invalid_delivered += 1;
            }
            s.note(format!("net   rx  {}", p.what));
            s.class(format!("delivered|{}", p.what));
            s.deliver(p.frame);
        }
        s.poll();
        let r = rng.below(100);
        if r < 35 {
            // ---- the application sends a datagram
            let d = *rng.pick(&dsts);
            let id = s.next_id;
            s.next_id += 1;
            let mut payload = id.to_be_bytes().to_vec();
            payload.extend_from_slice(&rng.bytes(8));
            let ep = IpEndpoint::new(d.to_smol(), 9000);
            let sk = s.h.sockets.get_mut::<udp::Socket>(s.sock);
            if sk.send_slice(&payload, ep).is_ok() {
                let now = s.now;
                s.sent.push((id, d, now));
                s.note(format!("app   send id={} to {}", id, d));
            }
            s.poll();
            // schedule the neighbor's answer to a discovery for the next hop
            if let Some(nh) = s.next_hop(&d) {
                let have = s.evidence.iter().any(|x| x.ip == nh && s.now - x.at < 55 * SEC);
                let already = s.pending.iter().any(|p| p.evidence.map(|e| e.0) == Some(nh));
                if !have && !already {
                    let delay = if final_phase {
                        10_000
                    } else {
                        match (answer_mode, rng.below(6)) {
                            (0, _) => 10_000,
                            (3, _) if step < steps / 2 => 400 * SEC,
                            (_, 0) => 1 * SEC + 5000,
                            (_, 1) => 3 * SEC,
                            (_, 2) => 61 * SEC,
                            (2, _) => 5 * SEC,
                            (_, 3) => 500 * SEC, // effectively never
                            _ => 20_000,
                        }
                    };
                    let mac = mac_of(&nh);
                    let (frame, what) = match nh {
                        Addr::V4(a) => (s.arp_reply(a, mac, own4(), 2), "arp-reply"),
                        Addr::V6(a) => (s.na(a, mac, own6(), 0x60, 255, a), "na-solicited-override"),
                    };
                    let at = s.now + delay;
                    s.pending.push(Pending { at, frame, evidence: Some((nh, mac)), what });
                }
            }
        } else if r < 60 {
            let dt = *rng.pick(&[1_000i64, 100_000, 999_000, SEC, SEC + 1000, 3 * SEC, 59 * SEC + 900_000, 60 * SEC, 60 * SEC + 100_000, 120 * SEC]);
            s.now += dt;
            s.poll();
        } else if r < 75 {
            // ---- unsolicited / spoofed / malformed announcements
            let d = *rng.pick(&dsts);
            let Some(nh) = s.next_hop(&d) else { continue };
            let alt_mac = [0x02, 0x66, rng.u8(), rng.u8(), rng.u8(), 1];
            let kind = rng.below(8);
            let (frame, evidence, what): (Vec<u8>, Option<(Addr, [u8; 6])>, &'static str) = match (nh, kind) {
                (Addr::V4(a), 0) => (s.arp_reply(a, alt_mac, own4(), 2), Some((nh, alt_mac)), "arp-unsolicited-reply-other-mac"),
                (Addr::V4(a), 1) => (s.arp_reply(a, alt_mac, own4(), 1), Some((nh, alt_mac)), "arp-request-from-neighbor"),
                (Addr::V4(_), 2) => (s.arp_reply([10, 200, 1, 1], alt_mac, own4(), 2), None, "arp-from-off-link-sender"),
                (Addr::V4(a), 3) => (s.arp_reply(a, [0xff; 6], own4(), 2), None, "arp-with-broadcast-hardware-address"),
                (Addr::V4(a), 4) => (s.arp_reply(a, [0x01, 0, 0x5e, 1, 2, 3], own4(), 2), None, "arp-with-multicast-hardware-address"),
                (Addr::V4(a), 5) => (s.arp_reply(a, alt_mac, [192, 168, 1, 77], 2), None, "arp-for-another-target"),
                (Addr::V4(a), _) => (s.arp_reply(a, mac_of(&nh), own4(), 2), Some((nh, mac_of(&nh))), "arp-unsolicited-reply"),
                (Addr::V6(a), 0) => (s.na(a, alt_mac, own6(), 0x20, 255, a), Some((nh, alt_mac)), "na-unsolicited-override-other-mac"),
                (Addr::V6(a), 1) => (s.na(a, alt_mac, own6(), 0x00, 255, a), Some((nh, alt_mac)), "na-unsolicited-no-override-other-mac"),
                (Addr::V6(a), 2) => (s.na(a, alt_mac, own6(), 0x20, 64, a), None, "na-with-hop-limit-64"),
                (Addr::V6(a), 3) => (s.na(a, [0xff; 6], own6(), 0x20, 255, a), None, "na-with-broadcast-hardware-address"),
                (Addr::V6(a), 4) => (s.na(a, [0x33, 0x33, 0, 0, 0, 1], own6(), 0x20, 255, a), None, "na-with-multicast-hardware-address"),
                (Addr::V6(a), _) => (s.na(a, mac_of(&nh), own6(), 0x60, 255, a), Some((nh, mac_of(&nh))), "na-unsolicited"),
            };
            // "no override" advertisements only count as evidence when nothing else is known:
            // the stack may legitimately ignore them, using them is also fine => evidence either way
            let at = s.now;
            s.pending.push(Pending { at, frame, evidence, what });
        } else if r < 88 {
            // ---- inbound unicast traffic from a neighbor (confirming or with a foreign hardware address)
            let d = *rng.pick(&dsts);
            if !s.on_link(&d) {
                continue;
            }
            let genuine = rng.chance(2, 3);
            let mac = if genuine {
                // the address the stack currently has evidence for, if any
                s.evidence.iter().rev().find(|x| x.ip == d).map(|x| x.mac).unwrap_or(mac_of(&d))
            } else {
                [0x02, 0x77, rng.u8(), rng.u8(), 0, 2]
            };
            let me = if d.is_v4() { v4(192, 168, 1, 1) } else { v6([0xfd00, 0, 0, 0, 0, 0, 0, 1]) };
            let udpb = build_udp(&d, &me, 9000, 7000, b"inbound!");
            let p = ip::build(&d, &me, ip::PROTO_UDP, 64, &udpb);
            let f = eth(&MY_MAC, &mac, if d.is_v4() { ET_IPV4 } else { ET_IPV6 }, &p);
            if s.ever.contains(&(d, mac)) {
                // confirming traffic refreshes the mapping it came with
                s.add_evidence(d, mac);
                s.class("inbound|confirming".into());
            } else {
                s.class("inbound|foreign-hardware-address".into());
            }
            s.note(format!("net   rx  unicast UDP from {} with link source {:02x?}", d, mac));
            s.deliver(f);
            s.poll();
            // drain the application's receive queue
            let sk = s.h.sockets.get_mut::<udp::Socket>(s.sock);
            while sk.recv().is_ok() {}
        } else if r < 93 {
            // ---- address change: add or remove a secondary address
            let extra = IpCidr::new(IpAddress::Ipv4(Ipv4Address::new(10, 0, 0, 1)), 8);
            let has = s.my_addrs.iter().any(|(a, _)| *a == v4(10, 0, 0, 1));
            s.h.iface.update_ip_addrs(|a| {
                if has {
                    a.retain(|c| *c != extra);
                } else {
                    let _ = a.push(extra);
                }
            });
            if has {
                s.my_addrs.retain(|(a, _)| *a != v4(10, 0, 0, 1));
            } else if s.h.iface.ip_addrs().contains(&extra) {
                s.my_addrs.push((v4(10, 0, 0, 1), 8));
            }
            s.note(format!("app   update_ip_addrs ({} 10.0.0.1/8)", if has { "removed" } else { "added" }));
            s.class("address-change".into());
            s.poll();
        } else {
            s.now += rng.range(1, 1500) as Micros * 1000;
            s.poll();
        }
    }
    // ---- settle: every neighbor answers, then everything still queued must go out exactly once
    // (only the neighbor the oldest queued datagram is waiting for answers in each round: answering
    //  all of them at the same instant would evict the first answers again from a cache that is
    //  smaller than the number of neighbors)
    for round in 0..(s.sent.len() + 8) {
        let head: Option<Addr> = s.sent.iter().filter(|(id, _, _)| !s.seen.contains(id)).filter_map(|(_, d, _)| s.next_hop(d)).next();
        let Some(nh) = head else { break };
        let mac = mac_of(&nh);
        let f = match nh {
            Addr::V4(a) => s.arp_reply(a, mac, own4(), 2),
            Addr::V6(a) => s.na(a, mac, own6(), 0x60, 255, a),
        };
        s.add_evidence(nh, mac);
        s.note(format!("net   rx  settle round {}: announcement for {}", round, nh));
        s.deliver(f);
        s.poll();
        s.now += SEC + 1000;
        s.poll();
    }
    let lost: Vec<(u32, Addr, Micros)> = s.sent.iter().filter(|(id, d, _)| !s.seen.contains(id) && s.next_hop(d).is_some()).cloned().collect();
    if !lost.is_empty() {
        let (id, d, t) = lost[0];
        s.violate(
            format!("queue:datagram-lost:{}", if d.is_v4() { "v4" } else { "v6" }),
            format!("{} datagram(s) accepted by send never reached the wire although their next hops answered; first: id {} to {} accepted at {:.3}s", lost.len(), id, d, t as f64 / 1e6),
        );
    }
    out.evals = s.unicast_checked + s.discoveries;
    out.count("runs", 1);
    out.count("unicast_frames_checked", s.unicast_checked);
    out.count("discovery_frames_checked", s.discoveries);
    out.count("datagrams_sent", s.sent.len() as u64);
    out.count("datagrams_seen_on_wire", s.seen.len() as u64);
    out.count("invalid_announcements_delivered", s.invalid_delivered);
    out.count("evidence_entries", s.evidence.len() as u64);
    for c in s.classes {
        out.class(c);
    }
    for v in s.viol {
        out.violate(v);
    }
    if idx == 0 {
        out.sample = Some(Json::obj().set("neighbors", Json::u(nneigh as u64)).set("history_tail", Json::Arr(s.log.iter().take(30).map(|x| Json::s(x.clone())).collect())));
    }
    out
}

pub fn monitor() -> super::Monitor {
    super::Monitor {
        id: "C16",
        rule: "the harness plays all neighbors of an Ethernet interface (IPv4/ARP and IPv6/NDISC; on-link hosts, two gateways, routes with expiry, more neighbors than cache slots) and delivers timely, late, absent, unsolicited, gratuitous-with-another-address, off-link-spoofed, hop-limit-64 and non-unicast-hardware-address announcements, confirming and foreign-address inbound traffic, address changes and time steps across the 1 s / 60 s boundaries. For every emitted unicast IP frame the next hop is computed independently (own prefixes, else longest-prefix unexpired route) and its link-layer destination must have been announced for that next hop by a valid ARP/NDISC message (or confirmed by unicast traffic carrying it) less than 60 s ago; discovery requests are pairwise >= 1 s apart; every datagram accepted by send reaches the wire exactly once after its next hop answers. A class is a kind of delivered announcement / traffic or (IP version, direct|gateway, evidence age bucket) of a checked frame.",
        assumptions: &[
            "valid ARP: request or reply addressed to one of our addresses from an on-link unicast sender with a unicast hardware address; valid NDISC: NS/NA with a unicast link-layer address option and hop limit 255",
            "confirming traffic revives a mapping that was once announced, also after it expired (the statement only says when a mapping stops being used)",
            "IEEE 802.15.4 neighbor handling is driven by the C20 scenarios only",
        ],
        floors: &[("runs", 200), ("unicast_frames_checked", 5_000), ("discovery_frames_checked", 2_000), ("invalid_announcements_delivered", 300), ("distinct", 15)],
        parts: vec![super::Part { name: "neighbors", cases: |c| c.n(4_000, 150_000), f: case }],
        post: None,
    }
}
