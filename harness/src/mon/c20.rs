//! C20 – 6LoWPAN compression and fragmentation are lossless.
//!
//! Two IEEE 802.15.4 hosts A -> B (sim::lowpan).  Every frame is judged with the
//! independent codec (indep::ieee802154 / indep::lowpan): smoltcp::wire never judges
//! itself.  Parts:
//!   emit  – A sends one UDP datagram / ICMPv6 echo; frame-level oracle, raw-IP twin,
//!           in-order end-to-end delivery at B (socket + raw socket);
//!   tcp   – a TCP transfer A -> B over the same link (every frame of both directions judged);
//!   perm  – A's fragments reach a fresh B in every order / with duplicates;
//!   recv  – frames BUILT by indep (all encodings RFC 6282 allows, incl. address
//!           contexts, which smoltcp never emits) are received by B;
//!   b2b   – several datagrams queued back to back.
use crate::indep::ieee802154::{self as mac, LlAddr};
use crate::indep::lowpan::{self, AMode, COpts, CtxTable, Datagram, Pushed, Reasm};
use crate::indep::{self, icmp6, ip as iip, tcp as itcp, udp6 as iudp, Addr};
use crate::sim::lowpan::*;
use crate::util::json::Json;
use crate::util::rng::{stream_byte, Rng};
use crate::util::run::*;
use smoltcp::config::ASSEMBLER_MAX_SEGMENT_COUNT as MAX_RANGES;
use smoltcp::iface::{SocketHandle, SocketSet};
use smoltcp::socket::{icmp, raw, tcp, udp};
use smoltcp::wire::{IpEndpoint, IpListenEndpoint, IpProtocol, IpVersion};

pub const RULE: &str = "two 802.15.4 hosts A->B; every frame judged by an independent 802.15.4/RFC 6282/RFC 4944 codec. (W) every frame <= 125 octets, a valid data frame from A's link address to B's (or broadcast) in the configured PAN; FRAG trains share size/tag, cover [0,datagram_size) exactly once, every fragment but the last is a multiple of 8 octets of uncompressed space; every train that is started is completed. (D) the datagram obtained by independent reassembly+decompression equals, octet for octet, the datagram constructed from the send parameters (and the one the same send produces on a Medium::Ip interface). (E) B's UDP/ICMP/TCP socket receives exactly payload + addresses + ports; a raw socket on B sees exactly that datagram. (P) for every arrival order / duplication of the fragments that needs at most ASSEMBLER_MAX_SEGMENT_COUNT ranges a fresh B delivers the datagram; in every other order B delivers either nothing or the exact datagram, and never more copies than the link carried. (R) frames built by the independent compressor in any RFC 6282 encoding of the same datagram class (TC=0, flow=0) are delivered identically. A class is (part, protocol, address classes, IPHC encoding, port class, hop-limit class, fragment count) or (order shape, verdict).";

// ---------------------------------------------------------------- addresses

const HW_A: [u8; 8] = [0x02, 0x1a, 0x0b, 0x42, 0x42, 0x42, 0x42, 0x0a];
const HW_B: [u8; 8] = [0x9e, 0x33, 0x71, 0x08, 0x28, 0x2f, 0x82, 0x0b];
const PREFIX: [u8; 8] = [0x20, 0x01, 0x0d, 0xb8, 0x00, 0x42, 0x00, 0x01];
const PREFIX2: [u8; 8] = [0xfd, 0x00, 0x00, 0x00, 0x00, 0x00, 0xbe, 0xef];

#[derive(Clone, Copy, Debug, PartialEq)]
pub enum UClass {
    /// fe80:: + IID derived from the node's link-layer address
    LlHw,
    /// fe80::ff:fe00:XXXX not matching the link-layer address
    Ll16,
    /// fe80:: + arbitrary IID
    Ll64,
    /// global prefix + arbitrary IID
    Global,
    /// global prefix + IID derived from the link-layer address (context-compressible)
    GlobalHw,
    /// global prefix + 0:ff:fe00:XXXX
    Global16,
    /// a prefix that only looks link-local (inside fe80::/10 but not fe80::/64, or next to it) + the
    /// three IID forms: none of the stateless elisions applies, the address travels in full
    NearHw,
    Near16,
    Near64,
}

impl UClass {
    fn name(&self) -> &'static str {
        match self {
            UClass::LlHw => "ll-hw",
            UClass::Ll16 => "ll-16",
            UClass::Ll64 => "ll-64",
            UClass::Global => "gl-64",
            UClass::GlobalHw => "gl-hw",
            UClass::Global16 => "gl-16",
            UClass::NearHw => "near-ll-hw",
            UClass::Near16 => "near-ll-16",
            UClass::Near64 => "near-ll-64",
        }
    }
    fn is_near(&self) -> bool {
        matches!(self, UClass::NearHw | UClass::Near16 | UClass::Near64)
    }
    /// 0 link-local, 1 the configured global prefix, 2 the look-alike prefix
    fn net(&self) -> u8 {
        match self {
            UClass::LlHw | UClass::Ll16 | UClass::Ll64 => 0,
            UClass::Global | UClass::GlobalHw | UClass::Global16 => 1,
            _ => 2,
        }
    }
}

const ALL_UCLASSES: [UClass; 9] =
    [UClass::LlHw, UClass::Ll16, UClass::Ll64, UClass::Global, UClass::GlobalHw, UClass::Global16, UClass::NearHw, UClass::Near16, UClass::Near64];

/// A /64 that shares its leading bits with fe80::/64 without being it.
fn near_ll_prefix(rng: &mut Rng) -> [u8; 8] {
    let mut p = LL;
    match rng.below(6) {
        0 => p[7] = 1,                                  // fe80:0:0:1::/64
        1 => p = [0xfe, 0xbf, 0xff, 0xff, 0xff, 0xff, 0xff, 0xff], // the far end of fe80::/10
        2 => {
            // one bit of bits 10..63
            let b = rng.urange(10, 63);
            p[b / 8] |= 0x80 >> (b % 8);
        }
        3 => {
            p[1] = 0x80 | (rng.u8() & 0x3f);
            for x in p[2..].iter_mut() {
                *x = rng.u8();
            }
            p[7] |= 1;
        }
        4 => p[1] = 0xc0, // fec0::/64 (former site-local)
        _ => p[0] = 0xfc, // fc80::/64
    }
    p
}

fn join(p: &[u8; 8], i: &[u8; 8]) -> [u8; 16] {
    let mut a = [0u8; 16];
    a[..8].copy_from_slice(p);
    a[8..].copy_from_slice(i);
    a
}

const LL: [u8; 8] = [0xfe, 0x80, 0, 0, 0, 0, 0, 0];

fn uaddr(c: UClass, hw: &LlAddr, prefix: &[u8; 8], rng: &mut Rng) -> [u8; 16] {
    let hwiid = hw.iid().unwrap();
    let rnd16 = |rng: &mut Rng| loop {
        let x = [0, 0, 0, 0xff, 0xfe, 0, rng.u8(), rng.u8()];
        if x != hwiid {
            return x;
        }
    };
    let rnd64 = |rng: &mut Rng| loop {
        let mut x = [0u8; 8];
        rng.fill(&mut x);
        if rng.chance(1, 4) {
            // look-alikes of the 16-bit form
            x[..6].copy_from_slice(&[0, 0, 0, 0xff, 0xfe, 1]);
        }
        if x != hwiid && x[..6] != [0, 0, 0, 0xff, 0xfe, 0] {
            return x;
        }
    };
    match c {
        UClass::LlHw => join(&LL, &hwiid),
        UClass::Ll16 => join(&LL, &rnd16(rng)),
        UClass::Ll64 => join(&LL, &rnd64(rng)),
        UClass::Global => join(prefix, &rnd64(rng)),
        UClass::GlobalHw => join(prefix, &hwiid),
        UClass::Global16 | UClass::Near16 => join(prefix, &rnd16(rng)),
        UClass::NearHw => join(prefix, &hwiid),
        UClass::Near64 => join(prefix, &rnd64(rng)),
    }
}

#[derive(Clone, Copy, Debug, PartialEq)]
pub enum MClass {
    AllNodes,
    M8,
    M32,
    M48,
    Full,
}

impl MClass {
    fn name(&self) -> &'static str {
        match self {
            MClass::AllNodes => "ff02::1",
            MClass::M8 => "mc-8",
            MClass::M32 => "mc-32",
            MClass::M48 => "mc-48",
            MClass::Full => "mc-128",
        }
    }
}

fn maddr(c: MClass, rng: &mut Rng) -> [u8; 16] {
    let mut a = [0u8; 16];
    a[0] = 0xff;
    let scope = *rng.pick(&[0x02u8, 0x05, 0x08, 0x0e, 0x12, 0x15]);
    match c {
        MClass::AllNodes => {
            a[1] = 2;
            a[15] = 1;
        }
        MClass::M8 => {
            a[1] = 2;
            a[15] = rng.range(3, 255) as u8;
        }
        MClass::M32 => {
            // ffXX::00XX:XXXX but not the 8-bit form
            a[1] = scope;
            a[13] = rng.u8();
            a[14] = rng.u8();
            a[15] = rng.u8();
            if a[1] == 2 && a[13] == 0 && a[14] == 0 {
                a[13] = 1;
            }
        }
        MClass::M48 => {
            a[1] = scope;
            a[11] = rng.u8();
            a[12] = rng.u8() | 1;
            a[13] = rng.u8();
            a[14] = rng.u8();
            a[15] = rng.u8();
        }
        MClass::Full => {
            a[1] = scope;
            let k = rng.urange(2, 10);
            a[k] = rng.u8() | 1;
            a[15] = rng.u8();
            if rng.bool() {
                let mut t = [0u8; 14];
                rng.fill(&mut t);
                a[2..].copy_from_slice(&t);
                a[2] |= 1;
            }
        }
    }
    a
}

fn smol_ctx_table(c: &[[u8; 8]]) -> CtxTable {
    c.iter().map(|p| Some(lowpan::ctx64(*p))).collect()
}

// ---------------------------------------------------------------- flows

#[derive(Clone, Copy, Debug, PartialEq)]
pub enum Proto {
    Udp,
    Echo,
    /// a TCP SYN built by the harness (part recv only)
    TcpSyn,
}

#[derive(Clone, Debug)]
pub struct Flow {
    pub proto: Proto,
    pub src: [u8; 16],
    pub dst: [u8; 16],
    pub sport: u16,
    pub dport: u16,
    pub ident: u16,
    pub seq: u16,
    pub hop: u8,
    pub payload: Vec<u8>,
    /// when several datagrams share the demultiplexing keys: the first two payload octets
    /// (UDP) identify the datagram; echo requests are told apart by their sequence number
    pub mark: Option<[u8; 2]>,
}

impl Flow {
    fn saddr(&self) -> Addr {
        Addr::V6(self.src)
    }
    fn daddr(&self) -> Addr {
        Addr::V6(self.dst)
    }
    /// the transport segment / ICMPv6 message as it must appear on the wire
    pub fn upper(&self) -> Vec<u8> {
        match self.proto {
            Proto::Udp => iudp::build(&self.saddr(), &self.daddr(), self.sport, self.dport, &self.payload),
            Proto::Echo => icmp6::build_echo(&self.saddr(), &self.daddr(), icmp6::ECHO_REQUEST, self.ident, self.seq, &self.payload),
            Proto::TcpSyn => {
                let seg = itcp::Seg {
                    sport: self.sport,
                    dport: self.dport,
                    seq: ((self.ident as u32) << 16) | self.seq as u32,
                    flags: itcp::SYN,
                    wnd: 4096,
                    mss: Some(1200),
                    ..Default::default()
                };
                itcp::build(&self.saddr(), &self.daddr(), &seg)
            }
        }
    }
    pub fn nh(&self) -> u8 {
        match self.proto {
            Proto::Udp => iip::PROTO_UDP,
            Proto::Echo => iip::PROTO_ICMPV6,
            Proto::TcpSyn => iip::PROTO_TCP,
        }
    }
    /// the complete IPv6 datagram constructed from the send parameters
    pub fn datagram(&self) -> Vec<u8> {
        iip::build(&self.saddr(), &self.daddr(), self.nh(), self.hop, &self.upper())
    }
    /// does a decoded datagram belong to this flow (same protocol and demultiplexing keys)?
    pub fn matches(&self, d: &[u8]) -> bool {
        if d.len() < 48 || d[6] != self.nh() {
            return false;
        }
        match self.proto {
            Proto::Udp => {
                indep::be16(d, 40) == self.sport
                    && indep::be16(d, 42) == self.dport
                    && match self.mark {
                        Some(m) => d.len() >= 50 && d[48..50] == m,
                        None => true,
                    }
            }
            Proto::Echo => d[40] == icmp6::ECHO_REQUEST && indep::be16(d, 44) == self.ident && (self.mark.is_none() || indep::be16(d, 46) == self.seq),
            Proto::TcpSyn => indep::be16(d, 40) == self.sport && indep::be16(d, 42) == self.dport,
        }
    }
    fn mark_matches_payload(&self, p: &[u8]) -> bool {
        match self.mark {
            Some(m) => p.len() >= 2 && p[..2] == m,
            None => true,
        }
    }
    fn describe(&self) -> String {
        match self.proto {
            Proto::Udp => format!(
                "UDP [{}]:{} -> [{}]:{} hop limit {} payload {} octets",
                self.saddr(),
                self.sport,
                self.daddr(),
                self.dport,
                self.hop,
                self.payload.len()
            ),
            Proto::Echo => format!(
                "ICMPv6 echo request {} -> {} ident {:#x} seq {} hop limit {} data {} octets",
                self.saddr(),
                self.daddr(),
                self.ident,
                self.seq,
                self.hop,
                self.payload.len()
            ),
            Proto::TcpSyn => format!("TCP SYN [{}]:{} -> [{}]:{} hop limit {}", self.saddr(), self.sport, self.daddr(), self.dport, self.hop),
        }
    }
}

fn port_class(sp: u16, dp: u16) -> &'static str {
    let c4 = |p: u16| p & 0xfff0 == 0xf0b0;
    let c8 = |p: u16| p & 0xff00 == 0xf000;
    if c4(sp) && c4(dp) {
        "4+4"
    } else if c8(sp) && c8(dp) {
        "8+8"
    } else if c8(sp) {
        "8+16"
    } else if c8(dp) {
        "16+8"
    } else {
        "16+16"
    }
}

fn gen_ports(rng: &mut Rng) -> (u16, u16) {
    let p4 = |r: &mut Rng| 0xf0b0 + r.below(16) as u16;
    let p8 = |r: &mut Rng| *r.pick(&[0xf000u16, 0xf0af, 0xf0c0, 0xf0ff, 0xf001, 0xf07e]);
    let p16 = |r: &mut Rng| *r.pick(&[0xefffu16, 0xf100, 1, 53, 5683, 0xffff, 0x0fb0, 0xb0f0, 61616 - 256, 40000]);
    match rng.below(8) {
        0 | 1 => (p4(rng), p4(rng)),
        2 => (p8(rng), p16(rng)),
        3 => (p16(rng), p8(rng)),
        4 => (p8(rng), p8(rng)),
        5 => (p4(rng), p8(rng)),
        6 => (p8(rng), p4(rng)),
        _ => (p16(rng), p16(rng)),
    }
}

fn hop_class(h: u8) -> &'static str {
    match h {
        1 => "1",
        64 => "64",
        255 => "255",
        _ => "inline",
    }
}

fn gen_hop(rng: &mut Rng) -> u8 {
    match rng.below(5) {
        0 => 1,
        1 | 2 => 64,
        3 => 255,
        _ => *rng.pick(&[2u8, 63, 65, 128, 254, 17]),
    }
}

/// payload sizes: biased to the single-frame limit, to multiples of 8 and to the
/// fragmentation buffer
fn gen_size(rng: &mut Rng, max: usize) -> usize {
    let s = match rng.below(12) {
        0 => 0,
        1 => rng.urange(0, 16),
        2 | 3 => rng.urange(40, 130),
        4 | 5 => rng.urange(60, 400),
        6 => 8 * rng.urange(1, 60) + rng.urange(0, 2) - 1,
        7 => rng.urange(400, 1300),
        8 => max - rng.urange(0, 48).min(max),
        _ => rng.urange(0, max),
    };
    s.min(max)
}

fn gen_payload(rng: &mut Rng, n: usize) -> Vec<u8> {
    let tag = rng.next_u64();
    (0..n).map(|i| stream_byte(tag, i as u64)).collect()
}

/// Make the UDP checksum of `f` compute to zero (so that it must be sent as 0xffff).
fn force_zero_udp_checksum(f: &mut Flow) -> bool {
    if f.proto != Proto::Udp || f.payload.len() < 2 {
        return false;
    }
    let at = (f.payload.len() - 2) & !1;
    f.payload[at] = 0;
    f.payload[at + 1] = 0;
    let seg = f.upper();
    // with the word zeroed the checksum field holds c = !sum; putting c into the
    // word makes the sum 0xffff, i.e. the computed checksum 0
    let c = indep::be16(&seg, 6);
    if c == 0xffff {
        // sum was 0 before folding in: the word would be 0xffff -> still fine
    }
    f.payload[at] = (c >> 8) as u8;
    f.payload[at + 1] = c as u8;
    let seg = f.upper();
    indep::be16(&seg, 6) == 0xffff
}

// ---------------------------------------------------------------- wire oracle (W)

pub struct Defect {
    pub sig: String,
    pub desc: String,
}

#[derive(Default)]
pub struct WireView {
    /// datagrams in completion order, with the index of the frame that completed them
    pub datagrams: Vec<(usize, Datagram)>,
    pub defects: Vec<Defect>,
    pub frames: usize,
    pub frag_frames: usize,
    pub max_frame: usize,
    /// trains started but never completed: (tag, size, octets seen)
    pub abandoned: Vec<(u16, usize, usize)>,
    /// per completed fragmented datagram: the uncompressed ranges of its fragments in emission order
    pub trains: Vec<Vec<(usize, usize)>>,
}

fn hex(b: &[u8]) -> String {
    let mut s = String::with_capacity(b.len() * 2);
    for x in b {
        s.push_str(&format!("{:02x}", x));
    }
    s
}

fn hex_short(b: &[u8]) -> String {
    if b.len() <= 160 {
        hex(b)
    } else {
        format!("{}..({} octets)..{}", hex(&b[..96]), b.len(), hex(&b[b.len() - 32..]))
    }
}

/// Judge the frames one sender put on the link.
pub fn judge_frames(who: &str, frames: &[Vec<u8>], sender: &LlAddr, peer: &LlAddr, ctx: &CtxTable) -> WireView {
    let mut v = WireView::default();
    let mut re = Reasm::new();
    let mut cur_ranges: std::collections::BTreeMap<(u16, usize), Vec<(usize, usize)>> = Default::default();
    let mut push_defect = |v: &mut WireView, kind: &str, desc: String| {
        if v.defects.len() < 6 {
            v.defects.push(Defect { sig: format!("c20:wire:{}:{}", who, kind), desc });
        }
    };
    for (n, f) in frames.iter().enumerate() {
        v.frames += 1;
        v.max_frame = v.max_frame.max(f.len());
        if f.len() > mac::MAX_FRAME_NO_FCS {
            push_defect(&mut v, "frame-too-long", format!("frame #{} has {} octets (> 125): {}", n, f.len(), hex_short(f)));
        }
        let m = match mac::parse(f) {
            Ok(m) => m,
            Err(e) => {
                push_defect(&mut v, "mac-header", format!("frame #{}: {}: {}", n, e, hex_short(f)));
                continue;
            }
        };
        let mut bad = Vec::new();
        if m.ftype != mac::FT_DATA {
            bad.push(format!("frame type {}", m.ftype));
        }
        if m.security {
            bad.push("security enabled bit set".into());
        }
        if m.reserved != 0 {
            bad.push(format!("reserved frame control bits 7..9 = {:03b}", m.reserved));
        }
        if m.dst_pan != Some(PAN) {
            bad.push(format!("destination PAN {:?}, configured {:#x}", m.dst_pan, PAN));
        }
        if let Some(p) = m.src_pan {
            if p != PAN {
                bad.push(format!("source PAN {:#x}, configured {:#x}", p, PAN));
            }
        }
        if m.src != *sender {
            bad.push(format!("source address {} but the interface has {}", m.src, sender));
        }
        if m.dst != *peer && m.dst != LlAddr::BROADCAST {
            bad.push(format!("destination address {} is neither the neighbour {} nor broadcast", m.dst, peer));
        }
        if !bad.is_empty() {
            push_defect(&mut v, "mac-header", format!("frame #{}: {}: {}", n, bad.join("; "), hex_short(f)));
            continue;
        }
        let p = &f[m.hdr_len..];
        if lowpan::is_frag(p) {
            v.frag_frames += 1;
            // fragment geometry
            match lowpan::parse_frag(p) {
                Ok(h) => {
                    let body = &p[h.hdr_len..];
                    let ulen = if h.first {
                        match lowpan::decompress(body, &m.src, &m.dst, ctx, Some(h.size)) {
                            Ok(d) => d.bytes.len(),
                            Err(_) => 0, // reported by the reassembler below
                        }
                    } else {
                        body.len()
                    };
                    let end = h.offset + ulen;
                    if ulen == 0 && !h.first {
                        push_defect(&mut v, "frag-empty", format!("frame #{}: FRAGN without data: {}", n, hex_short(f)));
                    }
                    if end < h.size && ulen % 8 != 0 {
                        push_defect(
                            &mut v,
                            "frag-not-multiple-of-8",
                            format!(
                                "frame #{}: fragment covers [{}..{}) of a {}-octet datagram: {} octets is not a multiple of 8 although it is not the last fragment: {}",
                                n, h.offset, end, h.size, ulen, hex_short(f)
                            ),
                        );
                    }
                    cur_ranges.entry((h.tag, h.size)).or_default().push((h.offset, end));
                }
                Err(e) => push_defect(&mut v, "frag-header", format!("frame #{}: {}: {}", n, e, hex_short(f))),
            }
        }
        match re.push(&m.src, &m.dst, p, ctx) {
            Ok(Pushed::Complete(d)) => {
                if let Some(k) = d.key {
                    if let Some(r) = cur_ranges.remove(&(k.tag, k.size)) {
                        // exact cover, no overlap
                        let mut s = r.clone();
                        s.sort();
                        let mut pos = 0;
                        let mut ok = true;
                        for (a, b) in &s {
                            if *a != pos {
                                ok = false;
                            }
                            pos = *b;
                        }
                        if !ok || pos != k.size {
                            push_defect(
                                &mut v,
                                "frag-cover",
                                format!("fragments of tag {:#x} cover {:?}, not [0..{}) exactly once", k.tag, r, k.size),
                            );
                        }
                        v.trains.push(r);
                    }
                }
                v.datagrams.push((n, d));
            }
            Ok(Pushed::Partial) => {}
            Err(e) => push_defect(&mut v, "undecodable", format!("frame #{}: {}: {}", n, e, hex_short(f))),
        }
    }
    for k in re.open_keys() {
        let (have, _) = re.progress(&k);
        v.abandoned.push((k.tag, k.size, have));
    }
    v
}

/// A decoded datagram must be well formed whatever it is (ND, MLD, the flow itself).
fn well_formed(d: &[u8]) -> Result<(), String> {
    let i = iip::parse_v6(d, true)?;
    let up = &d[i.payload_off..i.payload_off + i.payload_len];
    match i.proto {
        iip::PROTO_UDP => {
            let u = iudp::parse(&i.src, &i.dst, up)?;
            if u.len_field as usize != up.len() {
                return Err(format!("UDP length {} but IPv6 payload carries {}", u.len_field, up.len()));
            }
            if !u.checksum_ok {
                return Err(format!("UDP checksum {:#06x} does not verify", u.cksum));
            }
        }
        iip::PROTO_ICMPV6 => {
            let m = icmp6::parse(&i.src, &i.dst, up)?;
            if !m.checksum_ok {
                return Err(format!("ICMPv6 (type {}) checksum {:#06x} does not verify", m.typ, m.cksum));
            }
        }
        iip::PROTO_TCP => {
            let s = itcp::parse(&i.src, &i.dst, up)?;
            if !s.checksum_ok {
                return Err("TCP checksum does not verify".into());
            }
        }
        p => return Err(format!("unexpected upper-layer protocol {}", p)),
    }
    Ok(())
}

/// Field-wise difference of two IPv6 datagrams of the same flow.
pub fn diff_fields(want: &[u8], got: &[u8]) -> Vec<(&'static str, String)> {
    let mut v = Vec::new();
    if got.len() < 40 || want.len() < 40 {
        v.push(("length", format!("{} octets instead of {}", got.len(), want.len())));
        return v;
    }
    let mut cmp = |name: &'static str, r: std::ops::Range<usize>| {
        if r.end <= want.len() && r.end <= got.len() {
            if want[r.clone()] != got[r.clone()] {
                v.push((name, format!("{} instead of {}", hex(&got[r.clone()]), hex(&want[r]))));
            }
        } else if r.start < want.len() || r.start < got.len() {
            v.push((name, "truncated".into()));
        }
    };
    cmp("ipv6.version-tc-flow", 0..4);
    cmp("ipv6.payload-length", 4..6);
    cmp("ipv6.next-header", 6..7);
    cmp("ipv6.hop-limit", 7..8);
    cmp("ipv6.src", 8..24);
    cmp("ipv6.dst", 24..40);
    let body: usize = match want[6] {
        17 => {
            cmp("udp.src-port", 40..42);
            cmp("udp.dst-port", 42..44);
            cmp("udp.length", 44..46);
            cmp("udp.checksum", 46..48);
            48
        }
        58 => {
            cmp("icmpv6.type-code", 40..42);
            cmp("icmpv6.checksum", 42..44);
            cmp("icmpv6.ident-seq", 44..48);
            48
        }
        6 => {
            cmp("tcp.ports", 40..44);
            cmp("tcp.seq-ack", 44..52);
            cmp("tcp.offset-flags-window", 52..56);
            cmp("tcp.checksum", 56..58);
            cmp("tcp.urgent", 58..60);
            60
        }
        _ => 40,
    };
    if want.len() != got.len() {
        v.push(("length", format!("{} octets instead of {}", got.len(), want.len())));
    }
    let n = want.len().min(got.len());
    if n > body && want[body..n] != got[body..n] {
        let first = (body..n).find(|i| want[*i] != got[*i]).unwrap();
        let cnt = (body..n).filter(|i| want[*i] != got[*i]).count();
        v.push(("payload", format!("{} octets differ, first at payload offset {} ({:02x} instead of {:02x})", cnt, first - body, got[first], want[first])));
    }
    v
}

fn proto_name(nh: u8) -> &'static str {
    match nh {
        17 => "udp",
        58 => "icmpv6",
        6 => "tcp",
        0 => "hbh",
        _ => "other",
    }
}

// ---------------------------------------------------------------- hosts and sockets

pub struct Socks {
    pub udp: SocketHandle,
    pub raw: SocketHandle,
    pub icmp: SocketHandle,
}

fn udp_socket(cap: usize) -> udp::Socket<'static> {
    udp::Socket::new(
        udp::PacketBuffer::new(vec![udp::PacketMetadata::EMPTY; 16], vec![0u8; cap]),
        udp::PacketBuffer::new(vec![udp::PacketMetadata::EMPTY; 16], vec![0u8; cap]),
    )
}
fn raw_socket(proto: u8, cap: usize) -> raw::Socket<'static> {
    raw::Socket::new(
        Some(IpVersion::Ipv6),
        Some(IpProtocol::from(proto)),
        raw::PacketBuffer::new(vec![raw::PacketMetadata::EMPTY; 32], vec![0u8; cap]),
        raw::PacketBuffer::new(vec![raw::PacketMetadata::EMPTY; 2], vec![0u8; 64]),
    )
}
fn icmp_socket(cap: usize) -> icmp::Socket<'static> {
    icmp::Socket::new(
        icmp::PacketBuffer::new(vec![icmp::PacketMetadata::EMPTY; 16], vec![0u8; cap]),
        icmp::PacketBuffer::new(vec![icmp::PacketMetadata::EMPTY; 16], vec![0u8; cap]),
    )
}

const BUF: usize = 8192;

/// receiver sockets on B for a flow: UDP bound to the port, ICMP bound to the ident,
/// raw socket for the flow's protocol
fn add_rx_socks(set: &mut SocketSet<'static>, f_proto: u8, dport: u16, ident: u16) -> Socks {
    let mut u = udp_socket(BUF);
    let _ = u.bind(IpListenEndpoint { addr: None, port: if dport == 0 { 1 } else { dport } });
    let mut i = icmp_socket(BUF);
    let _ = i.bind(icmp::Endpoint::Ident(ident));
    let r = raw_socket(f_proto, 4 * BUF);
    Socks { udp: set.add(u), raw: set.add(r), icmp: set.add(i) }
}

/// sender sockets on A
fn add_tx_socks(set: &mut SocketSet<'static>, f: &Flow) -> Socks {
    let mut u = udp_socket(BUF);
    let _ = u.bind(IpListenEndpoint { addr: None, port: f.sport });
    u.set_hop_limit(Some(f.hop));
    let mut i = icmp_socket(BUF);
    let _ = i.bind(icmp::Endpoint::Ident(f.ident));
    i.set_hop_limit(Some(f.hop));
    // a raw socket on A for a protocol nobody uses: never matches anything
    let r = raw_socket(253, 64);
    Socks { udp: set.add(u), raw: set.add(r), icmp: set.add(i) }
}

/// hand the flow's datagram to the sender's socket; Err = the socket refused
fn app_send(set: &mut SocketSet<'static>, s: &Socks, f: &Flow) -> Result<(), String> {
    match f.proto {
        Proto::Udp => {
            let sock = set.get_mut::<udp::Socket>(s.udp);
            let meta = udp::UdpMetadata {
                endpoint: IpEndpoint { addr: ip(&f.dst), port: f.dport },
                local_address: Some(ip(&f.src)),
                meta: Default::default(),
            };
            sock.send_slice(&f.payload, meta).map_err(|e| format!("udp send_slice: {:?}", e))
        }
        Proto::Echo => {
            let sock = set.get_mut::<icmp::Socket>(s.icmp);
            // the socket takes a ready-made ICMPv6 message; the stack recomputes the checksum
            let msg = f.upper();
            sock.send_slice(&msg, ip(&f.dst)).map_err(|e| format!("icmp send_slice: {:?}", e))
        }
        Proto::TcpSyn => Err("TCP SYNs are only built by the harness".into()),
    }
}

pub struct RxSeen {
    /// (payload, source address, source port, local address) per UDP datagram
    pub udp: Vec<(Vec<u8>, [u8; 16], u16, Option<[u8; 16]>)>,
    /// (ICMPv6 message, source address)
    pub icmp: Vec<(Vec<u8>, [u8; 16])>,
    /// complete IPv6 datagrams seen by the raw socket
    pub raw: Vec<Vec<u8>>,
}

fn v6_of(a: smoltcp::wire::IpAddress) -> [u8; 16] {
    match a {
        smoltcp::wire::IpAddress::Ipv6(x) => x.octets(),
        _ => [0; 16],
    }
}

fn read_rx(set: &mut SocketSet<'static>, s: &Socks) -> RxSeen {
    let mut seen = RxSeen { udp: Vec::new(), icmp: Vec::new(), raw: Vec::new() };
    {
        let sock = set.get_mut::<udp::Socket>(s.udp);
        while let Ok((d, m)) = sock.recv() {
            seen.udp.push((d.to_vec(), v6_of(m.endpoint.addr), m.endpoint.port, m.local_address.map(v6_of)));
        }
    }
    {
        let sock = set.get_mut::<icmp::Socket>(s.icmp);
        while let Ok((d, a)) = sock.recv() {
            seen.icmp.push((d.to_vec(), v6_of(a)));
        }
    }
    {
        let sock = set.get_mut::<raw::Socket>(s.raw);
        while let Ok(d) = sock.recv() {
            seen.raw.push(d.to_vec());
        }
    }
    seen
}

// ---------------------------------------------------------------- oracle (D)+(E) helpers

struct Verdicts<'a> {
    out: &'a mut CaseOut,
    part: &'static str,
    ctx_desc: String,
    /// the datagram carries an extension header: smoltcp's raw sockets do not see those
    no_raw: bool,
    /// appended to every signature: encoding features of the judged frames (part recv)
    sig_suffix: String,
}

impl<'a> Verdicts<'a> {
    /// for failures whose cause depends on how the frames were encoded (addresses, delivery)
    fn fail_enc(&mut self, sig: String, what: String, detail: Json) {
        let sig = if self.sig_suffix.is_empty() { sig } else { format!("{}[{}]", sig, self.sig_suffix) };
        self.fail(sig, what, detail)
    }
    fn fail(&mut self, sig: String, what: String, detail: Json) {
        let desc = format!("{} | {}", what, self.ctx_desc);
        self.out.violate(Violation::new(sig, desc).with(detail));
    }
}

/// (D): the flow's datagram as decoded from the wire vs. the constructed one.
/// Returns the number of matching datagrams found.
fn check_wire_datagram(vd: &mut Verdicts, view: &WireView, f: &Flow, want: &[u8], frames: &[Vec<u8>]) -> usize {
    let mut found = 0;
    for (n, d) in &view.datagrams {
        if !f.matches(&d.bytes) {
            continue;
        }
        found += 1;
        vd.out.evals += 1;
        let diffs = diff_fields(want, &d.bytes);
        for (field, how) in diffs {
            let first = n + 1 - d.nfrags.min(n + 1);
            vd.fail(
                format!("c20:{}:tx:{}:{}", vd.part, proto_name(want[6]), field),
                format!(
                    "A's frames decode (independent reassembly + RFC 6282 decompression) to a datagram whose {} is wrong: {}. sent: {}. expected datagram {} ; decoded {} ; first frame of it: {}",
                    field,
                    how,
                    f.describe(),
                    hex_short(want),
                    hex_short(&d.bytes),
                    frames.get(first).map(|x| hex_short(x)).unwrap_or_default()
                ),
                Json::obj().set("field", Json::s(field)).set("iphc", Json::s(d.info.class())).set("fragments", Json::u(d.nfrags as u64)),
            );
        }
    }
    found
}

/// `compared_exactly(datagram)`: judged octet for octet elsewhere, no need for the generic check
fn report_wire_defects(vd: &mut Verdicts, view: &WireView, compared_exactly: &dyn Fn(&[u8]) -> bool) {
    for d in &view.defects {
        vd.fail(d.sig.replace("c20:wire:", &format!("c20:{}:wire:", vd.part)), d.desc.clone(), Json::Null);
    }
    for (_, d) in &view.datagrams {
        if compared_exactly(&d.bytes) {
            continue;
        }
        vd.out.evals += 1;
        if let Err(e) = well_formed(&d.bytes) {
            let nh = d.bytes.get(6).copied().unwrap_or(0);
            vd.fail(
                format!("c20:{}:wire:datagram-malformed:{}", vd.part, proto_name(nh)),
                format!("a datagram decoded from the frames is not well formed: {}: {} (IPHC {})", e, hex_short(&d.bytes), d.info.class()),
                Json::Null,
            );
        }
    }
}

fn report_abandoned(vd: &mut Verdicts, view: &WireView, who: &str, history: &str) {
    for (tag, size, have) in &view.abandoned {
        vd.out.evals += 1;
        vd.fail(
            format!("c20:{}:wire:{}:frag-train-abandoned", vd.part, who),
            format!(
                "{} started a fragmented datagram (tag {:#06x}, datagram_size {}) but put only {} of its {} octets on the link although the link accepted every frame. {}",
                who, tag, size, have, size, history
            ),
            Json::obj().set("tag", Json::u(*tag as u64)).set("size", Json::u(*size as u64)).set("octets_seen", Json::u(*have as u64)),
        );
    }
}

/// (E): what B's sockets saw vs. the flow.  `copies` = how many deliveries are expected
/// at least / at most.
fn check_rx(vd: &mut Verdicts, seen: &RxSeen, f: &Flow, want: &[u8], min_copies: usize, max_copies: usize, how: &str) -> usize {
    let pn = proto_name(want[6]);
    // socket view
    let mut sock_copies = 0;
    match f.proto {
        Proto::Udp => {
            for (p, sa, sp, la) in &seen.udp {
                if !f.mark_matches_payload(p) {
                    continue;
                }
                sock_copies += 1;
                vd.out.evals += 1;
                let mut bad: Vec<(&str, String)> = Vec::new();
                if *p != f.payload {
                    let first = p.iter().zip(f.payload.iter()).position(|(a, b)| a != b);
                    bad.push(("payload", format!("{} octets (sent {}), first difference at {:?}", p.len(), f.payload.len(), first)));
                }
                if *sa != f.src {
                    bad.push(("src-addr", format!("{} instead of {}", Addr::V6(*sa), f.saddr())));
                }
                if *sp != f.sport {
                    bad.push(("src-port", format!("{} instead of {}", sp, f.sport)));
                }
                if *la != Some(f.dst) {
                    bad.push(("local-addr", format!("{:?} instead of {}", la.map(Addr::V6), f.daddr())));
                }
                for (field, h) in bad {
                    let addr_field = field.ends_with("addr");
                    let sig = format!("c20:{}:rx:udp-socket:{}", vd.part, field);
                    let sig = if addr_field && !vd.sig_suffix.is_empty() { format!("{}[{}]", sig, vd.sig_suffix) } else { sig };
                    vd.fail(
                        sig,
                        format!("B's UDP socket received a datagram whose {} is wrong: {}. sent: {}. {}", field, h, f.describe(), how),
                        Json::obj().set("field", Json::s(field)),
                    );
                }
            }
        }
        Proto::Echo => {
            let msg = f.upper();
            for (m, sa) in &seen.icmp {
                if m.first() != Some(&icmp6::ECHO_REQUEST) || (f.mark.is_some() && (m.len() < 8 || indep::be16(m, 6) != f.seq)) {
                    continue;
                }
                sock_copies += 1;
                vd.out.evals += 1;
                if *m != msg {
                    vd.fail(
                        format!("c20:{}:rx:icmp-socket:message", vd.part),
                        format!("B's ICMP socket received {} instead of {}. sent: {}. {}", hex_short(m), hex_short(&msg), f.describe(), how),
                        Json::Null,
                    );
                }
                if *sa != f.src {
                    vd.fail_enc(
                        format!("c20:{}:rx:icmp-socket:src-addr", vd.part),
                        format!("B's ICMP socket reports source {} instead of {}. sent: {}. {}", Addr::V6(*sa), f.saddr(), f.describe(), how),
                        Json::Null,
                    );
                }
            }
        }
        // judged by the caller (listening socket)
        Proto::TcpSyn => sock_copies = min_copies,
    }
    // raw view: the stack's own decompressed datagram
    let mut raw_copies = 0;
    for d in &seen.raw {
        if !f.matches(d) {
            continue;
        }
        raw_copies += 1;
        vd.out.evals += 1;
        for (field, h) in diff_fields(want, d) {
            let sig = format!("c20:{}:rx:raw-datagram:{}:{}", vd.part, pn, field);
            let sig = if (field == "ipv6.src" || field == "ipv6.dst") && !vd.sig_suffix.is_empty() { format!("{}[{}]", sig, vd.sig_suffix) } else { sig };
            vd.fail(
                sig,
                format!(
                    "the datagram B reassembled/decompressed (seen by a raw socket) differs from the one sent in {}: {}. sent: {}. expected {} ; B has {}. {}",
                    field,
                    h,
                    f.describe(),
                    hex_short(want),
                    hex_short(d),
                    how
                ),
                Json::obj().set("field", Json::s(field)),
            );
        }
    }
    vd.out.evals += 1;
    if f.proto == Proto::TcpSyn {
        sock_copies = sock_copies.min(max_copies);
    }
    for (name, n) in [("socket", sock_copies), ("raw-socket", raw_copies)] {
        if name == "raw-socket" && vd.no_raw {
            continue;
        }
        if n < min_copies {
            vd.fail_enc(
                format!("c20:{}:rx:{}:not-delivered:{}", vd.part, pn, name),
                format!("B's {} received {} copies of the datagram, at least {} required. sent: {}. {}", name, n, min_copies, f.describe(), how),
                Json::obj().set("copies", Json::u(n as u64)),
            );
        }
        if n > max_copies {
            vd.fail(
                format!("c20:{}:rx:{}:delivered-too-often:{}", vd.part, pn, name),
                format!("B's {} received {} copies of the datagram although the link carried at most {}. sent: {}. {}", name, n, max_copies, f.describe(), how),
                Json::obj().set("copies", Json::u(n as u64)),
            );
        }
    }
    sock_copies
}

// ---------------------------------------------------------------- scenario generation

#[derive(Clone, Debug)]
pub struct Scenario {
    pub a: NodeCfg,
    pub b: NodeCfg,
    pub flow: Flow,
    pub sclass: String,
    pub dclass: String,
    pub multicast: bool,
    /// B's radio refuses to transmit (receive-only observer)
    pub b_rx_only: bool,
}

/// Pick node configurations + a flow A -> B.
#[derive(Clone, Copy, Default)]
struct ScOpts {
    multicast: Option<bool>,
    size: Option<usize>,
}

fn gen_scenario(rng: &mut Rng, proto: Proto, max_payload: usize) -> Scenario {
    gen_scenario_with(rng, proto, max_payload, ScOpts::default())
}

fn gen_scenario_with(rng: &mut Rng, proto: Proto, max_payload: usize, o: ScOpts) -> Scenario {
    let multicast = o.multicast.unwrap_or_else(|| rng.chance(3, 10));
    // A with a short link-layer address can only reach multicast destinations
    // (smoltcp's neighbour discovery carries 8-octet link-layer addresses only)
    let a_short = multicast && rng.chance(1, 3);
    let b_short = multicast && rng.chance(1, 3);
    let hw_a = if a_short { LlAddr::Short([rng.u8() & 0x7f, rng.u8()]) } else { LlAddr::Ext(HW_A) };
    let hw_b = if b_short { LlAddr::Short([0x80 | rng.u8() & 0x7e, rng.u8()]) } else { LlAddr::Ext(HW_B) };
    let classes = ALL_UCLASSES;
    let sc = *rng.pick(&classes);
    // unicast: both ends in the same network (both link-local, both in PREFIX or both in the look-alike /64)
    let dc = if multicast {
        *rng.pick(&classes)
    } else {
        loop {
            let c = *rng.pick(&classes);
            if c.net() == sc.net() {
                break c;
            }
        }
    };
    let near = near_ll_prefix(rng);
    let src = uaddr(sc, &hw_a, if sc.is_near() { &near } else { &PREFIX }, rng);
    let baddr = uaddr(dc, &hw_b, if dc.is_near() { &near } else { &PREFIX }, rng);
    let (dst, dclass, groups) = if multicast {
        let mc = *rng.pick(&[MClass::AllNodes, MClass::M8, MClass::M32, MClass::M48, MClass::Full]);
        let g = maddr(mc, rng);
        (g, mc.name().to_string(), if mc == MClass::AllNodes { vec![] } else { vec![g] })
    } else {
        (baddr, dc.name().to_string(), vec![])
    };
    let (sport, dport) = gen_ports(rng);
    let n = o.size.unwrap_or_else(|| gen_size(rng, max_payload));
    let mut flow = Flow {
        proto,
        src,
        dst,
        sport,
        dport,
        ident: 0x1000 | rng.u16() & 0x0fff,
        seq: rng.u16(),
        hop: gen_hop(rng),
        payload: gen_payload(rng, n),
        mark: None,
    };
    if proto == Proto::Udp && rng.chance(1, 10) {
        force_zero_udp_checksum(&mut flow);
    }
    let ctxs = vec![PREFIX, PREFIX2];
    let a = NodeCfg { hw: hw_a, addrs: vec![src], ctx: ctxs.clone(), groups: vec![], mtu: 1280, seed: rng.next_u64() | 1 };
    let b = NodeCfg { hw: hw_b, addrs: vec![baddr], ctx: ctxs, groups, mtu: 1280, seed: rng.next_u64() | 1 };
    // A joined group makes B emit MLD reports (LOWPAN_NHC hop-by-hop header); in half of such
    // scenarios B is a receive-only observer whose radio refuses transmit().
    let b_rx_only = !b.groups.is_empty() && rng.chance(1, 2);
    Scenario {
        a,
        b,
        b_rx_only,
        flow,
        sclass: format!("{}{}", sc.name(), if a_short { "/short" } else { "" }),
        dclass: format!("{}{}", dclass, if b_short { "/short" } else { "" }),
        multicast,
    }
}

impl Scenario {
    fn describe(&self) -> String {
        format!("A hw {} addr {} ; B hw {} addr {}", self.a.hw, Addr::V6(self.a.addrs[0]), self.b.hw, Addr::V6(self.b.addrs[0]))
    }
}

/// How smoltcp's sender is expected to encode the addresses (RFC 6282 stateless modes;
/// the emitter never uses contexts).  Only used for evidence classes, never for verdicts.
fn frag_class(n: usize) -> String {
    match n {
        0 => "none".into(),
        1 => "1".into(),
        2..=4 => format!("{}", n),
        5..=8 => "5-8".into(),
        _ => "9+".into(),
    }
}

/// Largest UDP payload / echo data that is still expected to fit the fragmentation buffer.
const MAX_PAYLOAD: usize = 1500;

// ---------------------------------------------------------------- part: emit

/// Bring up A and B, let neighbour discovery / MLD settle by exchanging a first small
/// datagram of the same flow class, and return the pair with sockets.
struct Bench {
    pair: Pair,
    sa: Socks,
    sb: Socks,
    ctx: CtxTable,
}

fn bench(sc: &Scenario) -> Bench {
    let mut pair = Pair::new(&sc.a, &sc.b);
    pair.b.dev.tx_mute = sc.b_rx_only;
    let sa = add_tx_socks(&mut pair.a.sockets, &sc.flow);
    let sb = add_rx_socks(&mut pair.b.sockets, sc.flow.nh(), sc.flow.dport, sc.flow.ident);
    Bench { pair, sa, sb, ctx: smol_ctx_table(&sc.a.ctx) }
}

/// Run a scenario body; a panic inside smoltcp becomes a violation that tells the history.
fn guarded(sc: &Scenario, part: &'static str, what: &str, body: impl FnOnce() -> CaseOut) -> CaseOut {
    match catch(body) {
        Ok(o) => o,
        Err(p) => panic_outcome(sc, part, what, p),
    }
}

fn panic_outcome(sc: &Scenario, part: &'static str, what: &str, p: PanicInfo) -> CaseOut {
    let mut o = CaseOut::default();
    if p.in_target() {
        o.evals = 1;
        o.count("panics_in_smoltcp", 1);
        o.class(format!("{}|panic", part));
        o.violate(
            Violation::new(
                p.signature(),
                format!(
                    "smoltcp panicked at {}:{}: {} | {} | {} ; B joined multicast groups {:?} ; B radio {}",
                    p.file,
                    p.line,
                    p.msg,
                    what,
                    sc.describe(),
                    sc.b.groups.iter().map(|g| Addr::V6(*g).to_string()).collect::<Vec<_>>(),
                    if sc.b_rx_only { "receive-only" } else { "open" }
                ),
            )
            .with(Json::obj().set("panic_file", Json::s(p.file.clone())).set("line", Json::u(p.line as u64))),
        );
    } else {
        o.harness_errors.push(format!("harness panic at {}:{}: {}", p.file, p.line, p.msg));
    }
    o
}

pub fn emit_case(idx: u64, rng: &mut Rng, ctx: &Ctx) -> CaseOut {
    let proto = if idx % 3 == 2 { Proto::Echo } else { Proto::Udp };
    let sc = gen_scenario(rng, proto, MAX_PAYLOAD + 40);
    let what = format!("part emit: A sends {} and both interfaces are polled", sc.flow.describe());
    guarded(&sc, "emit", &what, || emit_body(idx, &sc, ctx))
}

fn emit_body(idx: u64, sc: &Scenario, ctx: &Ctx) -> CaseOut {
    let mut out = CaseOut::default();
    let f = sc.flow.clone();
    let want = f.datagram();
    let mut bn = bench(sc);
    let desc = format!("{} ; case {}", sc.describe(), idx);
    if ctx.verbose {
        println!("scenario: {}", desc);
        println!("flow: {}", f.describe());
        println!("expected datagram: {}", hex(&want));
    }
    // startup chatter (MLD reports for the solicited-node groups) first
    bn.pair.run(50_000, |_| false);
    let startup_a = bn.pair.a_frames.len();
    let sent = app_send(&mut bn.pair.a.sockets, &bn.sa, &f);
    if let Err(e) = &sent {
        // larger than the socket buffer etc.: not our concern
        out.harness_errors.push(format!("socket refused the datagram: {}", e));
        return out;
    }
    // in-order exchange until quiet (neighbour discovery happens here)
    bn.pair.run(5_000_000, |_| false);
    let a_frames = bn.pair.a_frames.clone();
    let b_frames = bn.pair.b_frames.clone();
    if ctx.verbose {
        for (i, fr) in a_frames.iter().enumerate() {
            println!("A frame #{} ({} octets){}: {}", i, fr.len(), if i < startup_a { " [startup]" } else { "" }, hex(fr));
        }
        for (i, fr) in b_frames.iter().enumerate() {
            println!("B frame #{} ({} octets): {}", i, fr.len(), hex(fr));
        }
    }
    let view_a = judge_frames("A", &a_frames, &sc.a.hw, &sc.b.hw, &bn.ctx);
    let view_b = judge_frames("B", &b_frames, &sc.b.hw, &sc.a.hw, &bn.ctx);
    let seen = read_rx(&mut bn.pair.b.sockets, &bn.sb);
    let mut vd = Verdicts { out: &mut out, part: "emit", ctx_desc: desc.clone(), no_raw: false, sig_suffix: String::new() };
    report_wire_defects(&mut vd, &view_a, &|d| f.matches(d));
    report_wire_defects(&mut vd, &view_b, &|_| false);
    report_abandoned(&mut vd, &view_a, "A", &format!("sent: {}", f.describe()));
    report_abandoned(&mut vd, &view_b, "B", "");
    // does the compressed datagram fit the fragmentation buffer?  (independent estimate:
    // the best stateless compression of the datagram)
    let comp_len = lowpan::compress(&want, &sc.a.hw, &if sc.multicast { LlAddr::BROADCAST } else { sc.b.hw }, &bn.ctx, &COpts::default())
        .map(|c| c.bytes.len())
        .unwrap_or(want.len());
    // "must be sent": the uncompressed datagram already fits the fragmentation buffer (the
    // compressed one then certainly does) and the receiver's reassembly buffer; between that
    // and the buffer size in compressed form both outcomes (sent completely / not at all) are accepted
    let fits = want.len() <= smoltcp::config::FRAGMENTATION_BUFFER_SIZE && want.len() <= smoltcp::config::REASSEMBLY_BUFFER_SIZE;
    let _ = comp_len;
    let found = check_wire_datagram(&mut vd, &view_a, &f, &want, &a_frames);
    vd.out.evals += 1;
    if fits && found != 1 {
        vd.fail(
            format!("c20:emit:tx:{}:datagram-count", proto_name(want[6])),
            format!(
                "the datagram ({} octets, about {} compressed) fits the fragmentation buffer but A's frames contain it {} times. sent: {}. A emitted {} frames",
                want.len(),
                comp_len,
                found,
                f.describe(),
                a_frames.len()
            ),
            Json::obj().set("found", Json::u(found as u64)),
        );
    }
    if !fits && found > 1 {
        vd.fail(
            format!("c20:emit:tx:{}:datagram-count", proto_name(want[6])),
            format!("A's frames contain the datagram {} times. sent: {}", found, f.describe()),
            Json::Null,
        );
    }
    // (E)
    let how = "frames delivered to B in emission order";
    let delivered = if found >= 1 {
        // (a datagram larger than REASSEMBLY_BUFFER_SIZE need not be accepted by B)
        check_rx(&mut vd, &seen, &f, &want, if fits { 1 } else { 0 }, 1, how)
    } else {
        check_rx(&mut vd, &seen, &f, &want, 0, 0, how)
    };
    // echo reply travels back over the same adaptation layer
    let mut reply_seen = false;
    if f.proto == Proto::Echo && found >= 1 && !sc.multicast && want.len() <= 1280 {
        let rf = Flow { src: f.dst, dst: f.src, hop: 64, ..f.clone() };
        let reply = iip::build(&rf.saddr(), &rf.daddr(), 58, 64, &icmp6::build_echo(&rf.saddr(), &rf.daddr(), icmp6::ECHO_REPLY, f.ident, f.seq, &f.payload));
        for (_, d) in &view_b.datagrams {
            if d.bytes.len() >= 48 && d.bytes[6] == 58 && d.bytes[40] == icmp6::ECHO_REPLY {
                reply_seen = true;
                vd.out.evals += 1;
                for (field, h) in diff_fields(&reply, &d.bytes) {
                    vd.fail(
                        format!("c20:emit:tx:echo-reply:{}", field),
                        format!("B's echo reply decodes to a datagram whose {} is wrong: {}; expected {} ; decoded {}", field, h, hex_short(&reply), hex_short(&d.bytes)),
                        Json::Null,
                    );
                }
            }
        }
        // A's socket gets the reply
        let sock = bn.pair.a.sockets.get_mut::<icmp::Socket>(bn.sa.icmp);
        let mut got = 0;
        while let Ok((m, a)) = sock.recv() {
            if m.first() == Some(&icmp6::ECHO_REPLY) {
                got += 1;
                vd.out.evals += 1;
                if m != &reply[40..] || v6_of(a) != f.dst {
                    let (m, a) = (m.to_vec(), v6_of(a));
                    vd.fail(
                        "c20:emit:rx:echo-reply:message".into(),
                        format!("A's ICMP socket received reply {} from {} instead of {} from {}", hex_short(&m), Addr::V6(a), hex_short(&reply[40..]), f.daddr()),
                        Json::Null,
                    );
                }
            }
        }
        if delivered >= 1 && reply_seen && got == 0 {
            vd.fail("c20:emit:rx:echo-reply:not-delivered".into(), format!("B's echo reply reached A's link but not A's socket. sent: {}", f.describe()), Json::Null);
        }
    }
    // raw-IP twin: the same send on a Medium::Ip interface
    {
        let mut twin = make_ip_twin(&sc.a, 0);
        let st = add_tx_socks(&mut twin.sockets, &f);
        let _ = drain_ip(&mut twin, 0);
        if app_send(&mut twin.sockets, &st, &f).is_ok() {
            let frames = drain_ip(&mut twin, 0);
            let mine: Vec<&Vec<u8>> = frames.iter().filter(|d| f.matches(d)).collect();
            vd.out.evals += 1;
            if mine.len() == 1 {
                vd.out.count("twin_compared", 1);
                for (field, h) in diff_fields(&want, mine[0]) {
                    vd.fail(
                        format!("c20:emit:twin:{}:{}", proto_name(want[6]), field),
                        format!(
                            "the same send on a Medium::Ip interface produces a datagram that differs from the constructed one in {}: {} (so the reference construction and the stack disagree before any compression). sent: {}",
                            field,
                            h,
                            f.describe()
                        ),
                        Json::Null,
                    );
                }
            } else {
                vd.out.count("twin_not_comparable", 1);
            }
        }
    }
    // ---- evidence
    let nfr = view_a.datagrams.iter().find(|(_, d)| f.matches(&d.bytes)).map(|(_, d)| d.nfrags).unwrap_or(0);
    let iphc = view_a.datagrams.iter().find(|(_, d)| f.matches(&d.bytes)).map(|(_, d)| d.info.class()).unwrap_or_else(|| "-".into());
    let iphc_addr = view_a.datagrams.iter().find(|(_, d)| f.matches(&d.bytes)).map(|(_, d)| d.info.addr_class()).unwrap_or_else(|| "-".into());
    out.class(format!("emit|{}|{}", proto_name(want[6]), iphc_addr));
    out.class(format!("emit|{}|frags:{}|hop:{}", proto_name(want[6]), frag_class(nfr), hop_class(f.hop)));
    out.class(format!("emit|addr|{}>{}", sc.sclass, sc.dclass));
    if f.proto == Proto::Udp {
        out.class(format!("emit|ports:{}", port_class(f.sport, f.dport)));
    }
    for (_, d) in view_a.datagrams.iter().chain(view_b.datagrams.iter()) {
        if !f.matches(&d.bytes) {
            out.class(format!("chatter|{}|{}", d.bytes.get(40).copied().unwrap_or(0), d.info.class()));
            out.count("other_datagrams_checked", 1);
        }
    }
    out.count("emit_cases", 1);
    out.count("frames_judged", (view_a.frames + view_b.frames) as u64);
    out.count("fragment_frames", (view_a.frag_frames + view_b.frag_frames) as u64);
    out.count("datagrams_decoded", (view_a.datagrams.len() + view_b.datagrams.len()) as u64);
    if found >= 1 {
        out.count("emit_datagrams_compared", 1);
        if nfr > 1 {
            out.count("emit_fragmented", 1);
        }
    }
    if !fits {
        out.count("emit_oversize", 1);
        out.class(format!("emit|oversize|{}", if found == 0 { "dropped" } else { "sent" }));
    }
    if delivered >= 1 {
        out.count("emit_delivered_e2e", 1);
    }
    if reply_seen {
        out.count("echo_replies_checked", 1);
    }
    if sc.multicast {
        out.count("emit_multicast", 1);
    }
    if f.proto == Proto::Udp && indep::be16(&want, 46) == 0xffff {
        out.count("udp_checksum_ffff_cases", 1);
    }
    if idx == 0 {
        out.sample = Some(
            Json::obj()
                .set("scenario", Json::s(desc))
                .set("flow", Json::s(f.describe()))
                .set("expected_datagram", Json::s(hex_short(&want)))
                .set("a_frames", Json::Arr(a_frames.iter().take(6).map(|x| Json::s(hex_short(x))).collect()))
                .set("iphc", Json::s(iphc)),
        );
    }
    out
}

// ---------------------------------------------------------------- part: tcp

fn tcp_socket(rx: usize, tx: usize) -> tcp::Socket<'static> {
    tcp::Socket::new(tcp::SocketBuffer::new(vec![0u8; rx]), tcp::SocketBuffer::new(vec![0u8; tx]))
}

fn drain_raw(set: &mut SocketSet<'static>, h: SocketHandle, into: &mut Vec<Vec<u8>>) {
    let sock = set.get_mut::<raw::Socket>(h);
    while let Ok(d) = sock.recv() {
        into.push(d.to_vec());
    }
}

pub fn tcp_case(idx: u64, rng: &mut Rng, ctx: &Ctx) -> CaseOut {
    let sc = gen_scenario_with(rng, Proto::Udp, 0, ScOpts { multicast: Some(false), size: Some(0) });
    let seed = rng.next_u64();
    let what = format!("part tcp: TCP transfer [{}]:{} -> [{}]:{}", sc.flow.saddr(), sc.flow.sport, sc.flow.daddr(), sc.flow.dport);
    guarded(&sc, "tcp", &what, || tcp_body(idx, &sc, seed, ctx))
}

fn tcp_body(idx: u64, sc: &Scenario, seed: u64, ctx: &Ctx) -> CaseOut {
    let mut out = CaseOut::default();
    let mut rng = Rng::new(seed);
    let f = &sc.flow;
    let sport = if f.sport == 0 { 1 } else { f.sport };
    let dport = if f.dport == 0 { 1 } else { f.dport };
    let desc = format!("{} ; TCP [{}]:{} -> [{}]:{} hop limit {} ; case {}", sc.describe(), f.saddr(), sport, f.daddr(), dport, f.hop, idx);
    // 0: one chunk at a time (next write only when everything is acknowledged), 1: everything at once
    let burst = rng.chance(1, 3);
    let chunk_class = rng.below(3);
    let total_a = match rng.below(4) {
        0 => rng.urange(1, 80),
        1 => rng.urange(80, 600),
        _ => rng.urange(600, 4000),
    };
    let total_b = if rng.chance(1, 3) { rng.urange(1, 1500) } else { 0 };
    let tag_a = rng.next_u64();
    let tag_b = rng.next_u64();
    let data_a: Vec<u8> = (0..total_a).map(|i| stream_byte(tag_a, i as u64)).collect();
    let data_b: Vec<u8> = (0..total_b).map(|i| stream_byte(tag_b, i as u64)).collect();

    let mut pair = Pair::new(&sc.a, &sc.b);
    let ctxt = smol_ctx_table(&sc.a.ctx);
    let mut ta = tcp_socket(4096, 4096);
    ta.set_hop_limit(Some(f.hop));
    let mut tb = tcp_socket(4096, 4096);
    tb.set_hop_limit(Some(f.hop));
    if tb.listen(IpListenEndpoint { addr: None, port: dport }).is_err() {
        out.harness_errors.push("listen failed".into());
        return out;
    }
    let ha = pair.a.sockets.add(ta);
    let hb = pair.b.sockets.add(tb);
    let raw_a = pair.a.sockets.add(raw_socket(6, 8 * BUF));
    let raw_b = pair.b.sockets.add(raw_socket(6, 8 * BUF));
    pair.run(50_000, |_| false);
    {
        let sock = pair.a.sockets.get_mut::<tcp::Socket>(ha);
        let cx = pair.a.iface.context();
        if let Err(e) = sock.connect(cx, (ip(&f.dst), dport), (ip(&f.src), sport)) {
            out.harness_errors.push(format!("connect failed: {:?}", e));
            return out;
        }
    }
    let mut sent_a = 0usize;
    let mut sent_b = 0usize;
    let mut got_b: Vec<u8> = Vec::new();
    let mut got_a: Vec<u8> = Vec::new();
    let mut seen_raw_a: Vec<Vec<u8>> = Vec::new();
    let mut seen_raw_b: Vec<Vec<u8>> = Vec::new();
    let mut a_closed = false;
    let mut b_closed = false;
    let mut chunk_rng = Rng::new(seed ^ 0x5555);
    pair.run(600_000_000, |p| {
        let mut acted = false;
        {
            let s = p.a.sockets.get_mut::<tcp::Socket>(ha);
            if s.may_send() && sent_a < total_a && (burst || s.send_queue() == 0) {
                let want = match chunk_class {
                    0 => chunk_rng.urange(1, 60),
                    1 => chunk_rng.urange(60, 400),
                    _ => chunk_rng.urange(400, 2000),
                };
                let end = (sent_a + want).min(total_a);
                if let Ok(n) = s.send_slice(&data_a[sent_a..end]) {
                    if n > 0 {
                        sent_a += n;
                        acted = true;
                    }
                }
            }
            while s.can_recv() {
                match s.recv(|b| (b.len(), b.to_vec())) {
                    Ok(v) if !v.is_empty() => {
                        got_a.extend(v);
                        acted = true;
                    }
                    _ => break,
                }
            }
            if !a_closed && sent_a == total_a && s.send_queue() == 0 && s.may_send() {
                s.close();
                a_closed = true;
                acted = true;
            }
        }
        {
            let s = p.b.sockets.get_mut::<tcp::Socket>(hb);
            if s.may_send() && sent_b < total_b {
                if let Ok(n) = s.send_slice(&data_b[sent_b..]) {
                    if n > 0 {
                        sent_b += n;
                        acted = true;
                    }
                }
            }
            while s.can_recv() {
                match s.recv(|b| (b.len(), b.to_vec())) {
                    Ok(v) if !v.is_empty() => {
                        got_b.extend(v);
                        acted = true;
                    }
                    _ => break,
                }
            }
            if !b_closed && sent_b == total_b && s.send_queue() == 0 && s.may_send() && !s.may_recv() && s.state() != tcp::State::Listen {
                s.close();
                b_closed = true;
                acted = true;
            }
        }
        drain_raw(&mut p.a.sockets, raw_a, &mut seen_raw_a);
        drain_raw(&mut p.b.sockets, raw_b, &mut seen_raw_b);
        acted
    });
    let a_frames = pair.a_frames.clone();
    let b_frames = pair.b_frames.clone();
    if ctx.verbose {
        println!("scenario: {}", desc);
        println!("burst={} chunk_class={} A->B {} octets, B->A {} octets", burst, chunk_class, total_a, total_b);
        for (i, fr) in a_frames.iter().enumerate() {
            println!("A frame #{} ({} octets): {}", i, fr.len(), hex(fr));
        }
        for (i, fr) in b_frames.iter().enumerate() {
            println!("B frame #{} ({} octets): {}", i, fr.len(), hex(fr));
        }
        println!("virtual time at the end: {} us; B received {} of {}, A received {} of {}", pair.now, got_b.len(), total_a, got_a.len(), total_b);
    }
    let view_a = judge_frames("A", &a_frames, &sc.a.hw, &sc.b.hw, &ctxt);
    let view_b = judge_frames("B", &b_frames, &sc.b.hw, &sc.a.hw, &ctxt);
    let mut vd = Verdicts { out: &mut out, part: "tcp", ctx_desc: desc.clone(), no_raw: false, sig_suffix: String::new() };
    report_wire_defects(&mut vd, &view_a, &|_| false);
    report_wire_defects(&mut vd, &view_b, &|_| false);
    let hist = format!("the application wrote {} octets {}", total_a, if burst { "at once" } else { "chunk by chunk, each after the previous one was acknowledged" });
    report_abandoned(&mut vd, &view_a, "A", &hist);
    report_abandoned(&mut vd, &view_b, "B", "");
    // every TCP datagram must carry the flow's addresses / ports / hop limit
    let mut tcp_a: Vec<&Vec<u8>> = Vec::new();
    let mut tcp_b: Vec<&Vec<u8>> = Vec::new();
    for (dir, view, list, s, d, sp, dp) in [("A", &view_a, &mut tcp_a, f.src, f.dst, sport, dport), ("B", &view_b, &mut tcp_b, f.dst, f.src, dport, sport)] {
        for (_, dg) in &view.datagrams {
            let b = &dg.bytes;
            if b.len() < 60 || b[6] != 6 {
                continue;
            }
            list.push(b);
            vd.out.evals += 1;
            let mut bad = Vec::new();
            if b[8..24] != s {
                bad.push(("ipv6.src", hex(&b[8..24])));
            }
            if b[24..40] != d {
                bad.push(("ipv6.dst", hex(&b[24..40])));
            }
            // (replies built from a received segment - RST, challenge/duplicate ACK - carry the default
            // hop limit, not the socket's: only segments the socket dispatches itself are judged)
            let hl = ((b[52] >> 4) as usize) * 4;
            let own = b[53] & itcp::SYN != 0 || b.len() > 40 + hl;
            if b[7] != f.hop && own && b[53] & itcp::RST == 0 {
                bad.push(("ipv6.hop-limit", format!("{}", b[7])));
            }
            if b[0..4] != [0x60, 0, 0, 0] {
                bad.push(("ipv6.version-tc-flow", hex(&b[0..4])));
            }
            if indep::be16(b, 40) != sp || indep::be16(b, 42) != dp {
                bad.push(("tcp.ports", hex(&b[40..44])));
            }
            for (field, got) in bad {
                vd.fail(
                    format!("c20:tcp:tx:tcp:{}", field),
                    format!("a TCP datagram decoded from {}'s frames has {} = {} : {} (IPHC {})", dir, field, got, hex_short(b), dg.info.class()),
                    Json::Null,
                );
            }
            vd.out.class(format!("tcp|{}|{}|frags:{}", dir, dg.info.addr_class(), frag_class(dg.nfrags)));
        }
    }
    // (E) raw sockets: what each stack decompressed == what the independent decoder got
    // from the frames that were delivered (in-order, loss-free link: all complete datagrams)
    for (dir, wire, rawseen, blocked) in [("A->B", &tcp_a, &seen_raw_b, !view_a.abandoned.is_empty()), ("B->A", &tcp_b, &seen_raw_a, !view_b.abandoned.is_empty())] {
        vd.out.evals += 1;
        // every datagram the receiver produced must be, octet for octet, one of the datagrams
        // on the link, in link order (the receiver may miss some: that is a count problem)
        let mut j = 0usize;
        for (i, r) in rawseen.iter().enumerate() {
            vd.out.count("tcp_datagrams_compared_raw", 1);
            match (j..wire.len()).find(|k| wire[*k] == r) {
                Some(k) => j = k + 1,
                None => {
                    let w: &Vec<u8> = if j < wire.len() { wire[j] } else { r };
                    let diffs = diff_fields(w, r);
                    let field = diffs.first().map(|d| d.0).unwrap_or("unknown");
                    vd.fail(
                        format!("c20:tcp:rx:raw-datagram:tcp:{}", field),
                        format!(
                            "{}: datagram #{} produced by the receiver's reassembly/decompression (raw socket) is none of the datagrams decoded independently from the link; compared with the next undelivered one it differs in {:?}; receiver has {} ; link has {}",
                            dir,
                            i,
                            diffs.iter().map(|d| d.0).collect::<Vec<_>>(),
                            hex_short(r),
                            hex_short(w)
                        ),
                        Json::Null,
                    );
                }
            }
        }
        // (an abandoned train occupies the receiver's only reassembly buffer for its timeout:
        // the receiver may then refuse fragmented datagrams, which is within the statement)
        if (wire.len() != rawseen.len() && !blocked) || rawseen.len() > wire.len() {
            vd.fail(
                format!("c20:tcp:rx:raw-datagram:count"),
                format!("{}: {} complete TCP datagrams on the link but the receiver's raw socket saw {}. {}", dir, wire.len(), rawseen.len(), hist),
                Json::obj().set("wire", Json::u(wire.len() as u64)).set("raw", Json::u(rawseen.len() as u64)),
            );
        }
    }
    // (E) streams
    vd.out.evals += 2;
    if got_b[..] != data_a[..got_b.len().min(data_a.len())] || got_b.len() > data_a.len() {
        let first = got_b.iter().zip(data_a.iter()).position(|(x, y)| x != y);
        vd.fail(
            "c20:tcp:rx:stream:content".into(),
            format!("B's TCP socket received {} octets that are not a prefix of the {} octets A wrote (first difference at {:?})", got_b.len(), data_a.len(), first),
            Json::Null,
        );
    }
    if got_a[..] != data_b[..got_a.len().min(data_b.len())] || got_a.len() > data_b.len() {
        let first = got_a.iter().zip(data_b.iter()).position(|(x, y)| x != y);
        vd.fail(
            "c20:tcp:rx:stream:content".into(),
            format!("A's TCP socket received {} octets that are not a prefix of the {} octets B wrote (first difference at {:?})", got_a.len(), data_b.len(), first),
            Json::Null,
        );
    }
    let complete = got_b.len() == total_a && got_a.len() == total_b;
    // SYN vs. the raw-IP twin (same seed => same initial sequence number)
    {
        let mut twin = make_ip_twin(&sc.a, 0);
        let mut t = tcp_socket(4096, 4096);
        t.set_hop_limit(Some(f.hop));
        let h = twin.sockets.add(t);
        let _ = drain_ip(&mut twin, 0);
        let ok = {
            let sock = twin.sockets.get_mut::<tcp::Socket>(h);
            sock.connect(twin.iface.context(), (ip(&f.dst), dport), (ip(&f.src), sport)).is_ok()
        };
        if ok {
            let frames = drain_ip(&mut twin, 0);
            if let (Some(t0), Some(w0)) = (frames.iter().find(|d| d.len() >= 60 && d[6] == 6), tcp_a.first()) {
                vd.out.evals += 1;
                // MSS differs legitimately (it is derived from the medium's MTU)
                let diffs: Vec<_> = diff_fields(t0, w0).into_iter().filter(|(k, _)| *k != "payload" && *k != "tcp.checksum").collect();
                let same_isn = t0[44..48] == w0[44..48];
                if same_isn {
                    vd.out.count("tcp_syn_twin_compared", 1);
                    for (field, h) in diffs {
                        vd.fail(
                            format!("c20:tcp:twin:syn:{}", field),
                            format!("A's SYN decoded from the 802.15.4 frames differs from the SYN of the same connect() on a Medium::Ip interface in {}: {}; wire {} ; twin {}", field, h, hex_short(w0), hex_short(t0)),
                            Json::Null,
                        );
                    }
                } else {
                    vd.out.count("tcp_syn_twin_isn_differs", 1);
                }
            }
        }
    }
    out.count("tcp_cases", 1);
    out.count("frames_judged", (view_a.frames + view_b.frames) as u64);
    out.count("fragment_frames", (view_a.frag_frames + view_b.frag_frames) as u64);
    out.count("datagrams_decoded", (view_a.datagrams.len() + view_b.datagrams.len()) as u64);
    out.count("tcp_stream_octets_compared", (got_a.len() + got_b.len()) as u64);
    if complete {
        out.count("tcp_transfers_complete", 1);
    } else {
        out.count("tcp_transfers_incomplete", 1);
    }
    out.class(format!("tcp|{}|{}|{}|{}", if burst { "burst" } else { "lockstep" }, chunk_class, if total_b > 0 { "bidir" } else { "unidir" }, if complete { "complete" } else { "incomplete" }));
    out.class(format!("tcp|addr|{}>{}|hop:{}", sc.sclass, sc.dclass, hop_class(f.hop)));
    if idx == 0 {
        out.sample = Some(
            Json::obj()
                .set("scenario", Json::s(desc))
                .set("a_to_b_octets", Json::u(total_a as u64))
                .set("b_to_a_octets", Json::u(total_b as u64))
                .set("frames", Json::u((a_frames.len() + b_frames.len()) as u64))
                .set("first_a_frames", Json::Arr(a_frames.iter().take(4).map(|x| Json::s(hex_short(x))).collect())),
        );
    }
    out
}

// ---------------------------------------------------------------- part: perm

/// Resolve neighbours with a first tiny datagram of the same addressing, so that the
/// datagram under test is the only thing A transmits afterwards.
fn warm_up(bn: &mut Bench, sc: &Scenario) -> Result<(), String> {
    bn.pair.run(50_000, |_| false);
    if !sc.multicast {
        let tiny = Flow { payload: vec![0xee], mark: None, proto: Proto::Udp, ..sc.flow.clone() };
        app_send(&mut bn.pair.a.sockets, &bn.sa, &tiny)?;
        bn.pair.run(5_000_000, |_| false);
        let seen = read_rx(&mut bn.pair.b.sockets, &bn.sb);
        if seen.udp.len() != 1 {
            return Err(format!("warm-up datagram not delivered ({} copies)", seen.udp.len()));
        }
    }
    Ok(())
}

fn order_shape(order: &[usize], k: usize) -> &'static str {
    let dup = order.len() > k;
    let sorted = order.windows(2).all(|w| w[0] <= w[1]);
    let rev = order.windows(2).all(|w| w[0] >= w[1]);
    match (dup, sorted, rev) {
        (false, true, _) => "in-order",
        (false, _, true) => "reverse",
        (false, _, _) => "permuted",
        (true, true, _) => "dup-in-order",
        (true, _, _) => "dup-permuted",
    }
}

/// Arrival orders for k fragments: exhaustive (all permutations x one duplicate anywhere)
/// for k <= 4, sampled beyond.
fn arrival_orders(k: usize, rng: &mut Rng, thorough: bool) -> Vec<Vec<usize>> {
    if k <= 4 {
        let mut v = orders_with_one_dup(k);
        // a few with two duplicates
        for _ in 0..8 {
            let mut o: Vec<usize> = (0..k).collect();
            o.push(rng.usize_below(k));
            o.push(rng.usize_below(k));
            rng.shuffle(&mut o);
            v.push(o);
        }
        return v;
    }
    let mut v: Vec<Vec<usize>> = Vec::new();
    v.push((0..k).collect());
    v.push((0..k).rev().collect());
    // every other fragment first: as many holes as possible
    v.push((0..k).step_by(2).chain((1..k).step_by(2)).collect());
    v.push((0..k).step_by(2).rev().chain((1..k).step_by(2)).collect());
    v.push((1..k).step_by(2).chain((0..k).step_by(2)).collect());
    // every third
    v.push((0..k).step_by(3).chain((1..k).step_by(3)).chain((2..k).step_by(3)).collect());
    // last first
    v.push(std::iter::once(k - 1).chain(0..k - 1).collect());
    let n = if thorough { 40 } else { 16 };
    for i in 0..n {
        let mut o: Vec<usize> = (0..k).collect();
        for _ in 0..(i % 4) {
            o.push(rng.usize_below(k));
        }
        if i % 3 == 0 {
            // local disorder only
            for j in (1..o.len()).step_by(2) {
                if rng.bool() {
                    o.swap(j - 1, j);
                }
            }
        } else {
            rng.shuffle(&mut o);
        }
        v.push(o);
    }
    v
}

pub fn perm_case(idx: u64, rng: &mut Rng, ctx: &Ctx) -> CaseOut {
    let proto = if idx % 4 == 3 { Proto::Echo } else { Proto::Udp };
    // aim at a fragment count: 2..4 (exhaustive orders) in most cases, up to ~14 otherwise
    let k = if idx % 10 < 7 { 2 + (idx % 3) as usize } else { rng.urange(5, 14) };
    let size = (k - 1) * 96 + rng.urange(0, 100);
    let sc = gen_scenario_with(rng, proto, 1400, ScOpts { multicast: None, size: Some(size.min(1400)) });
    let seed = rng.next_u64();
    let what = format!("part perm: fragments of {} delivered to a fresh B in every order", sc.flow.describe());
    guarded(&sc, "perm", &what, || perm_body(idx, &sc, seed, ctx))
}

fn perm_body(idx: u64, sc: &Scenario, seed: u64, ctx: &Ctx) -> CaseOut {
    let mut out = CaseOut::default();
    let mut rng = Rng::new(seed);
    let f = sc.flow.clone();
    let want = f.datagram();
    let mut bn = bench(sc);
    // B of the bench is only used to resolve neighbours; the judged receivers are fresh
    bn.pair.b.dev.tx_mute = !sc.b.groups.is_empty();
    let desc = format!("{} ; case {}", sc.describe(), idx);
    if let Err(e) = warm_up(&mut bn, sc) {
        out.harness_errors.push(e);
        return out;
    }
    if let Err(e) = app_send(&mut bn.pair.a.sockets, &bn.sa, &f) {
        out.harness_errors.push(e);
        return out;
    }
    let frames = drain(&mut bn.pair.a, bn.pair.now);
    let view = judge_frames("A", &frames, &sc.a.hw, &sc.b.hw, &bn.ctx);
    if ctx.verbose {
        println!("scenario: {}", desc);
        println!("flow: {}", f.describe());
        println!("expected datagram: {}", hex(&want));
        for (i, fr) in frames.iter().enumerate() {
            println!("A frame #{} ({} octets): {}", i, fr.len(), hex(fr));
        }
    }
    {
        let mut vd = Verdicts { out: &mut out, part: "perm", ctx_desc: desc.clone(), no_raw: false, sig_suffix: String::new() };
        report_wire_defects(&mut vd, &view, &|d| f.matches(d));
        report_abandoned(&mut vd, &view, "A", &format!("sent: {}", f.describe()));
        let found = check_wire_datagram(&mut vd, &view, &f, &want, &frames);
        if found != 1 || view.datagrams.len() != 1 {
            // nothing to permute (the emit part judges this situation)
            vd.out.count("perm_not_applicable", 1);
            return out;
        }
    }
    if view.trains.len() != 1 {
        out.count("perm_unfragmented", 1);
        out.class("perm|unfragmented");
        return out;
    }
    let ranges = view.trains[0].clone();
    let k = ranges.len();
    if k != frames.len() {
        out.harness_errors.push(format!("{} frames but {} fragments", frames.len(), k));
        return out;
    }
    let orders = arrival_orders(k, &mut rng, ctx.thorough());
    out.count("perm_cases", 1);
    out.count(if k <= 4 { "perm_cases_exhaustive" } else { "perm_cases_sampled" }, 1);
    for order in &orders {
        let v = track(order, &ranges, want.len(), MAX_RANGES);
        let must = v.trackable && v.complete_after.is_some();
        let copies = (0..k).map(|i| order.iter().filter(|x| **x == i).count()).min().unwrap_or(0);
        let mut b = make_host(&sc.b, 0);
        b.dev.tx_mute = !sc.b.groups.is_empty();
        let sb = add_rx_socks(&mut b.sockets, f.nh(), f.dport, f.ident);
        let _ = drain(&mut b, 0);
        let seq: Vec<&Vec<u8>> = order.iter().map(|i| &frames[*i]).collect();
        let _resp = deliver_each(&mut b, &seq, 1_000);
        let seen = read_rx(&mut b.sockets, &sb);
        let how = format!(
            "fragments cover {:?} of the {}-octet datagram; arrival order {:?} at a fresh B needs at most {} ranges (limit {})",
            ranges,
            want.len(),
            order,
            v.max_open,
            MAX_RANGES
        );
        if ctx.verbose {
            println!("order {:?}: must_deliver={} udp={} icmp={} raw={}", order, must, seen.udp.len(), seen.icmp.len(), seen.raw.len());
        }
        let mut vd = Verdicts { out: &mut out, part: "perm", ctx_desc: desc.clone(), no_raw: false, sig_suffix: String::new() };
        let got = check_rx(&mut vd, &seen, &f, &want, if must { 1 } else { 0 }, copies, &how);
        out.count("perm_orders_judged", 1);
        if must {
            out.count("perm_orders_must_deliver", 1);
        } else {
            out.count("perm_orders_untrackable", 1);
        }
        if got > 0 {
            out.count("perm_deliveries_compared", got as u64);
        }
        out.class(format!(
            "perm|{}|k={}|{}|{}|{}",
            proto_name(want[6]),
            if k <= 4 { format!("{}", k) } else { frag_class(k) },
            order_shape(order, k),
            if must { "must" } else { "optional" },
            if got > 0 { "delivered" } else { "nothing" }
        ));
    }
    out.class(format!("perm|addr|{}>{}", sc.sclass, sc.dclass));
    if idx == 0 {
        out.sample = Some(
            Json::obj()
                .set("scenario", Json::s(desc))
                .set("flow", Json::s(f.describe()))
                .set("fragment_ranges", Json::s(format!("{:?}", ranges)))
                .set("orders_tried", Json::u(orders.len() as u64)),
        );
    }
    out
}

// ---------------------------------------------------------------- part: recv

const PREFIX3: [u8; 8] = [0x20, 0x01, 0x0d, 0xb8, 0xaa, 0xaa, 0x00, 0x03];
const PREFIX4: [u8; 8] = [0xfd, 0x12, 0x34, 0x56, 0x78, 0x9a, 0xbc, 0xde];
/// never in any context table
const PREFIX_X: [u8; 8] = [0x20, 0x01, 0x0d, 0xb8, 0xff, 0xff, 0x00, 0x09];

fn mode_name(m: AMode) -> String {
    match m {
        AMode::Ctx64(_) => "ctx64".into(),
        AMode::Ctx16(_) => "ctx16".into(),
        AMode::CtxElided(_) => "ctx0".into(),
        m => format!("{:?}", m).to_lowercase(),
    }
}

fn pick_mode(rng: &mut Rng, valid: &[AMode]) -> AMode {
    if valid.is_empty() {
        return AMode::Best;
    }
    if rng.chance(1, 2) {
        // the most compressed one
        *valid.last().unwrap()
    } else {
        *rng.pick(valid)
    }
}

/// hop-by-hop options header in front of the upper layer: (uncompressed header, may the trailing pad be elided)
fn hbh_header(next: u8, variant: u64) -> Vec<u8> {
    match variant {
        // PadN(4)
        0 => vec![next, 0, 0x01, 0x04, 0, 0, 0, 0],
        // Router Alert (MLD) + PadN(0)
        1 => vec![next, 0, 0x05, 0x02, 0, 0, 0x01, 0x00],
        // unknown skippable option (type 0x1e, 10 octets of data) + PadN(2) = 16 octets
        _ => vec![next, 1, 0x1e, 0x08, 1, 2, 3, 4, 5, 6, 7, 8, 0x01, 0x02, 0, 0],
    }
}

pub fn recv_case(idx: u64, rng: &mut Rng, ctx: &Ctx) -> CaseOut {
    let mut out = CaseOut::default();
    let proto = match idx % 8 {
        0 | 1 | 2 | 3 | 4 => Proto::Udp,
        5 | 6 => Proto::Echo,
        _ => Proto::TcpSyn,
    };
    // ---- who talks to whom
    let s_hw = if rng.chance(1, 3) { LlAddr::Short([rng.u8() & 0x7f, rng.u8()]) } else { LlAddr::Ext(HW_A) };
    let b_hw = if rng.chance(1, 3) { LlAddr::Short([0x80 | rng.u8() & 0x7e, rng.u8()]) } else { LlAddr::Ext(HW_B) };
    // B's context table: 1..4 contexts in random positions
    let mut prefixes = vec![PREFIX, PREFIX2, PREFIX3, PREFIX4];
    rng.shuffle(&mut prefixes);
    prefixes.truncate(rng.urange(1, 4));
    let ctxt = smol_ctx_table(&prefixes);
    let classes = ALL_UCLASSES;
    let pick_prefix = |rng: &mut Rng| -> [u8; 8] {
        if rng.chance(1, 6) {
            PREFIX_X
        } else {
            *rng.pick(&prefixes)
        }
    };
    let sc_class = *rng.pick(&classes);
    let dc_class = *rng.pick(&classes);
    let sp = if sc_class.is_near() { near_ll_prefix(rng) } else { pick_prefix(rng) };
    let dp = if dc_class.is_near() { near_ll_prefix(rng) } else { pick_prefix(rng) };
    let src = uaddr(sc_class, &s_hw, &sp, rng);
    let baddr = uaddr(dc_class, &b_hw, &dp, rng);
    // (a TCP SYN to a multicast address is not something a receiver accepts)
    let multicast = rng.chance(1, 5) && proto != Proto::TcpSyn;
    let (dst, groups, dname) = if multicast {
        let mc = *rng.pick(&[MClass::AllNodes, MClass::M8, MClass::M32, MClass::M48, MClass::Full]);
        let g = maddr(mc, rng);
        (g, if mc == MClass::AllNodes { vec![] } else { vec![g] }, mc.name().to_string())
    } else {
        (baddr, vec![], dc_class.name().to_string())
    };
    let (sport, dport) = gen_ports(rng);
    let n = if proto == Proto::TcpSyn { 0 } else { gen_size(rng, 1200) };
    let mut f = Flow {
        proto,
        src,
        dst,
        sport,
        dport,
        ident: 0x1000 | rng.u16() & 0x0fff,
        seq: rng.u16(),
        hop: gen_hop(rng),
        payload: gen_payload(rng, n),
        mark: None,
    };
    if proto == Proto::Udp && rng.chance(1, 12) {
        force_zero_udp_checksum(&mut f);
    }
    let hbh = if rng.chance(1, 8) { Some(rng.below(3)) } else { None };
    let want = match hbh {
        Some(v) => {
            let mut p = hbh_header(f.nh(), v);
            p.extend_from_slice(&f.upper());
            iip::build(&f.saddr(), &f.daddr(), 0, f.hop, &p)
        }
        None => f.datagram(),
    };
    // ---- how it is encoded
    let ll_dst = if multicast { LlAddr::BROADCAST } else { b_hw };
    let src_valid = lowpan::valid_unicast_modes(&src, &s_hw, &ctxt);
    let dst_valid = if multicast { lowpan::valid_multicast_modes(&dst) } else { lowpan::valid_unicast_modes(&dst, &ll_dst, &ctxt) };
    let mut co = COpts::default();
    co.src = pick_mode(rng, &src_valid);
    co.dst = pick_mode(rng, &dst_valid);
    co.tf = if rng.chance(7, 10) { 3 } else { rng.below(3) as u8 };
    co.nhc = rng.chance(85, 100);
    co.hlim_inline = rng.chance(15, 100);
    co.force_cid = rng.chance(1, 10);
    // context 0 for every stateful address => no CID octet is needed; smoltcp drops that
    // encoding (FINDINGS.md F6), so most such cases carry the CID octet anyway to keep
    // the other code paths covered
    let uses_ctx = |m: AMode| matches!(m, AMode::Ctx64(_) | AMode::Ctx16(_) | AMode::CtxElided(_));
    if (uses_ctx(co.src) || uses_ctx(co.dst)) && rng.chance(3, 4) {
        co.force_cid = true;
    }
    co.elide_pad = rng.bool();
    if proto == Proto::Udp {
        if rng.chance(3, 10) {
            let mut pv = vec![0u8];
            if dport & 0xff00 == 0xf000 {
                pv.push(1);
            }
            if sport & 0xff00 == 0xf000 {
                pv.push(2);
            }
            co.ports = Some(*rng.pick(&pv));
        }
        co.cksum_elide = rng.chance(1, 10);
    }
    let mo = mac::MacOpts { pan_comp: rng.chance(8, 10), version: rng.below(2) as u8, ack_req: rng.chance(1, 10), pending: rng.chance(1, 10) };
    let desc = format!(
        "an independent sender (hw {}) -> B (hw {}, addr {}, contexts {:?}); {}{} ; encoding {:?} ; MAC {:?} ; case {}",
        s_hw,
        b_hw,
        Addr::V6(baddr),
        prefixes.iter().map(|p| hex(p)).collect::<Vec<_>>(),
        f.describe(),
        if hbh.is_some() { " behind a hop-by-hop options header" } else { "" },
        co,
        mo,
        idx
    );
    let comp = match lowpan::compress(&want, &s_hw, &ll_dst, &ctxt, &co) {
        Ok(c) => c,
        Err(e) => {
            out.harness_errors.push(format!("compressor refused: {} ({})", e, desc));
            return out;
        }
    };
    // ---- frames
    let mac_len = mac::build_data(0, PAN, &ll_dst, &s_hw, &mo, &[]).len();
    let cap = mac::MAX_FRAME_NO_FCS - mac_len;
    let must_frag = comp.bytes.len() > cap;
    let first_min = (comp.uncomp_hdr_len + 7) / 8 * 8;
    // FRAG1 carries comp_hdr_len + (first_uncomp - uncomp_hdr_len) octets after its 4-octet header
    let first_max_by_cap = if cap >= 4 + comp.comp_hdr_len { (cap - 4 - comp.comp_hdr_len + comp.uncomp_hdr_len) / 8 * 8 } else { 0 };
    let can_frag = first_min < want.len() && first_min <= first_max_by_cap && want.len() <= 2047;
    if must_frag && !can_frag {
        out.count("recv_not_encodable", 1);
        return out;
    }
    let do_frag = must_frag || (can_frag && rng.chance(1, 4));
    let seq0 = rng.u8();
    let payloads: Vec<Vec<u8>> = if do_frag {
        let first_hi = first_max_by_cap.min((want.len() - 1) / 8 * 8);
        let first = if rng.bool() { first_hi } else { first_min + 8 * rng.urange(0, (first_hi - first_min) / 8) };
        let nmax = (cap - 5) / 8 * 8;
        let fixed = if rng.bool() { Some(nmax) } else { None };
        let tag = rng.u16();
        let mut r2 = Rng::new(rng.next_u64());
        match lowpan::fragment(&comp, want.len(), tag, first, |_| fixed.unwrap_or_else(|| 8 * r2.urange(1, nmax / 8))) {
            Ok(v) => v,
            Err(e) => {
                out.harness_errors.push(format!("fragmenter refused: {} ({})", e, desc));
                return out;
            }
        }
    } else {
        vec![comp.bytes.clone()]
    };
    let frames: Vec<Vec<u8>> = payloads.iter().enumerate().map(|(i, p)| mac::build_data(seq0.wrapping_add(i as u8), PAN, &ll_dst, &s_hw, &mo, p)).collect();
    // ---- the reference codec must agree with itself
    let selfview = judge_frames("S", &frames, &s_hw, &ll_dst, &ctxt);
    let self_ok = selfview.defects.is_empty() && selfview.datagrams.len() == 1 && selfview.datagrams[0].1.bytes == want;
    if !self_ok {
        out.harness_errors.push(format!(
            "reference codec round trip failed: {:?} ({})",
            selfview.defects.iter().map(|d| d.desc.clone()).collect::<Vec<_>>(),
            desc
        ));
        return out;
    }
    let info = selfview.datagrams[0].1.info.clone();
    // ---- arrival order
    let k = frames.len();
    let ranges: Vec<(usize, usize)> = if k > 1 { selfview.trains[0].clone() } else { vec![(0, want.len())] };
    let order: Vec<usize> = if k == 1 {
        if rng.chance(1, 10) {
            vec![0, 0]
        } else {
            vec![0]
        }
    } else {
        let all = arrival_orders(k, rng, false);
        if rng.chance(1, 3) {
            (0..k).collect()
        } else {
            rng.pick(&all).clone()
        }
    };
    let v = track(&order, &ranges, want.len(), MAX_RANGES);
    // Datagrams with a hop-by-hop header are outside the statement's datagram classes unless
    // encoded the way smoltcp itself encodes its MLD/RPL datagrams (LOWPAN_NHC, padding kept):
    // for the other two RFC encodings (header carried in-line; trailing pad elided) delivery
    // is not demanded, only "nothing or the exact datagram".
    let foreign_ext = hbh.is_some() && (!co.nhc || (co.elide_pad && hbh != Some(0)));
    let must = v.trackable && v.complete_after.is_some() && !foreign_ext;
    let copies = (0..k).map(|i| order.iter().filter(|x| **x == i).count()).min().unwrap_or(0);
    // ---- B
    let bcfg = NodeCfg { hw: b_hw, addrs: vec![baddr], ctx: prefixes.clone(), groups: groups.clone(), mtu: 1280, seed: rng.next_u64() | 1 };
    let sc = Scenario {
        a: NodeCfg { hw: s_hw, addrs: vec![src], ctx: vec![], groups: vec![], mtu: 1280, seed: 1 },
        b: bcfg.clone(),
        flow: f.clone(),
        sclass: sc_class.name().into(),
        dclass: dname.clone(),
        multicast,
        b_rx_only: !groups.is_empty(),
    };
    if ctx.verbose {
        println!("{}", desc);
        println!("datagram: {}", hex(&want));
        for (i, fr) in frames.iter().enumerate() {
            println!("frame #{} ({} octets): {}", i, fr.len(), hex(fr));
        }
        println!("arrival order {:?}; must deliver: {}", order, must);
    }
    let what = format!("part recv: {}", desc);
    let frames2 = frames.clone();
    let order2 = order.clone();
    let f2 = f.clone();
    let r = catch(move || {
        let mut b = make_host(&bcfg, 0);
        b.dev.tx_mute = !bcfg.groups.is_empty();
        let sb = add_rx_socks(&mut b.sockets, f2.nh(), f2.dport, f2.ident);
        let mut t = tcp_socket(2048, 2048);
        let _ = t.listen(IpListenEndpoint { addr: None, port: f2.dport });
        let ht = b.sockets.add(t);
        let _ = drain(&mut b, 0);
        let seq: Vec<&Vec<u8>> = order2.iter().map(|i| &frames2[*i]).collect();
        let resp = deliver_each(&mut b, &seq, 1_000);
        let seen = read_rx(&mut b.sockets, &sb);
        let ts = b.sockets.get_mut::<tcp::Socket>(ht);
        let tcp_state = (ts.state(), ts.remote_endpoint(), ts.local_endpoint());
        (seen, resp, tcp_state)
    });
    let (seen, resp, tcp_state) = match r {
        Ok(x) => x,
        Err(p) => return panic_outcome(&sc, "recv", &what, p),
    };
    let how = format!("arrival order {:?} of fragments covering {:?} (needs at most {} ranges, limit {}); frames: {:?}", order, ranges, v.max_open, MAX_RANGES, frames.iter().map(|x| hex_short(x)).collect::<Vec<_>>());
    // encoding features of the frames (named in the signatures: different features, different code paths)
    // the most specific encoding feature of the frames is named in the signatures
    // (different features, different code paths of the decompressor)
    let stateful = (info.sac == 1 && info.sam != 0) || info.dac == 1;
    let feat = if stateful && !info.cid {
        "ctx0-without-cid"
    } else if (info.sac == 1 && info.sam == 2) || (info.m == 0 && info.dac == 1 && info.dam == 2) {
        "ctx+16bit"
    } else if hbh.is_some() && info.nh == 0 {
        "ext-inline"
    } else if hbh.is_some() && co.elide_pad && hbh != Some(0) {
        "nhc-ext-pad-elided"
    } else if hbh.is_some() {
        "nhc-ext"
    } else if info.udp.map(|u| u.0) == Some(1) {
        "udp-cksum-elided"
    } else if stateful {
        "ctx"
    } else {
        "stateless"
    };
    let mut vd = Verdicts { out: &mut out, part: "recv", ctx_desc: desc.clone(), no_raw: hbh.is_some(), sig_suffix: feat.to_string() };
    let got = check_rx(&mut vd, &seen, &f, &want, if must { 1 } else { 0 }, copies, &how);
    if proto == Proto::TcpSyn {
        vd.out.evals += 1;
        let (st, remote, local) = tcp_state;
        let ok_state = st == tcp::State::SynReceived;
        if must && !ok_state {
            vd.fail_enc("c20:recv:rx:tcp:syn-not-delivered".into(), format!("B's listening socket is in state {} after the SYN arrived. {}", st, how), Json::Null);
        }
        if ok_state {
            let r_ok = remote.map(|e| v6_of(e.addr) == f.src && e.port == f.sport).unwrap_or(false);
            let l_ok = local.map(|e| v6_of(e.addr) == f.dst && e.port == f.dport).unwrap_or(false);
            if !r_ok || !l_ok {
                vd.fail_enc(
                    "c20:recv:rx:tcp-socket:endpoints".into(),
                    format!("B's TCP socket accepted the SYN with remote {:?} local {:?}; sent {}. {}", remote, local, f.describe(), how),
                    Json::Null,
                );
            }
        }
    }
    // whatever B answered must be well formed too
    let view_b = judge_frames("B", &resp, &b_hw, &s_hw, &ctxt);
    report_wire_defects(&mut vd, &view_b, &|_| false);
    // ---- evidence
    out.count("recv_cases", 1);
    out.count("recv_frames_built", frames.len() as u64);
    if k > 1 {
        out.count("recv_fragmented", 1);
    }
    if must {
        out.count("recv_must_deliver", 1);
    }
    if got > 0 {
        out.count("recv_delivered", 1);
    }
    if info.sac == 1 && info.sam != 0 || info.dac == 1 {
        out.count("recv_context_based", 1);
    }
    if info.udp.map(|u| u.0) == Some(1) {
        out.count("recv_udp_checksum_elided", 1);
    }
    if hbh.is_some() {
        out.count("recv_with_hop_by_hop", 1);
    }
    out.class(format!("recv|{}|src:{}/{}", proto_name(f.nh()), sc_class.name(), mode_name(co.src)));
    out.class(format!("recv|{}|dst:{}/{}", proto_name(f.nh()), dname, mode_name(co.dst)));
    out.class(format!("recv|modes|{}>{}", mode_name(co.src), mode_name(co.dst)));
    out.class(format!("recv|hdr|tf{}nh{}hl{}", info.tf, info.nh, info.hlim));
    if info.cid {
        out.class(format!("recv|cid|sci{}dci{}", info.sci, info.dci));
    }
    if let Some((c, p)) = info.udp {
        out.class(format!("recv|udp|c{}p{}|{}", c, p, port_class(f.sport, f.dport)));
    }
    out.class(format!(
        "recv|ll|{}>{}|mac:{}{}{}",
        if matches!(s_hw, LlAddr::Short(_)) { "short" } else { "ext" },
        if multicast { "bcast" } else if matches!(b_hw, LlAddr::Short(_)) { "short" } else { "ext" },
        if mo.pan_comp { "c" } else { "p" },
        mo.version,
        if mo.ack_req { "a" } else { "" }
    ));
    out.class(format!("recv|frag|{}|{}|{}|{}", frag_class(k), order_shape(&order, k), if must { "must" } else { "optional" }, if got > 0 { "delivered" } else { "nothing" }));
    if let Some(v) = hbh {
        out.class(format!("recv|hbh{}|{}|{:?}", v, if co.elide_pad { "pad-elided" } else { "pad-kept" }, info.ext));
    }
    if idx == 0 {
        out.sample = Some(Json::obj().set("case", Json::s(desc)).set("datagram", Json::s(hex_short(&want))).set("frames", Json::Arr(frames.iter().take(4).map(|x| Json::s(hex_short(x))).collect())));
    }
    out
}

// ---------------------------------------------------------------- part: b2b

pub fn b2b_case(idx: u64, rng: &mut Rng, ctx: &Ctx) -> CaseOut {
    let sc = gen_scenario_with(rng, Proto::Udp, 0, ScOpts { multicast: None, size: Some(2) });
    let seed = rng.next_u64();
    let what = "part b2b: several datagrams handed to A's sockets before the next poll".to_string();
    guarded(&sc, "b2b", &what, || b2b_body(idx, &sc, seed, ctx))
}

fn b2b_body(idx: u64, sc: &Scenario, seed: u64, ctx: &Ctx) -> CaseOut {
    let mut out = CaseOut::default();
    let mut rng = Rng::new(seed);
    let base = sc.flow.clone();
    let mut bn = bench(sc);
    bn.pair.b.dev.tx_mute = !sc.b.groups.is_empty();
    let desc = format!("{} ; case {}", sc.describe(), idx);
    if let Err(e) = warm_up(&mut bn, sc) {
        out.harness_errors.push(e);
        return out;
    }
    // the datagrams: 2..5, a mix of single-frame and fragmented ones; mostly through the
    // same UDP socket, sometimes an echo request through the ICMP socket in between
    let m = rng.urange(2, 5);
    let shape = rng.below(4); // 0: all large, 1: all small, 2: mixed, 3: large then small
    let mut flows: Vec<Flow> = Vec::new();
    for i in 0..m {
        let large = match shape {
            0 => true,
            1 => false,
            2 => rng.bool(),
            _ => i == 0,
        };
        let n = if large { rng.urange(100, 1100) } else { rng.urange(2, 50) };
        let echo = rng.chance(1, 5);
        let mut f = Flow { payload: gen_payload(&mut rng, n), mark: None, proto: if echo { Proto::Echo } else { Proto::Udp }, seq: 100 + i as u16, ..base.clone() };
        if !echo {
            f.payload[0] = i as u8;
            f.payload[1] = 0xb2;
        }
        f.mark = Some([f.payload[0], f.payload[1]]);
        flows.push(f);
    }
    let a0 = bn.pair.a_frames.len();
    for f in &flows {
        if let Err(e) = app_send(&mut bn.pair.a.sockets, &bn.sa, f) {
            out.harness_errors.push(format!("socket refused datagram: {}", e));
            return out;
        }
    }
    bn.pair.run(bn.pair.now + 5_000_000, |_| false);
    let a_frames: Vec<Vec<u8>> = bn.pair.a_frames[a0..].to_vec();
    let hist = format!(
        "handed to A's sockets back to back: {}",
        flows.iter().map(|f| f.describe()).collect::<Vec<_>>().join(" ; then ")
    );
    if ctx.verbose {
        println!("scenario: {}", desc);
        println!("{}", hist);
        for (i, fr) in a_frames.iter().enumerate() {
            println!("A frame #{} ({} octets): {}", i, fr.len(), hex(fr));
        }
    }
    let view = judge_frames("A", &a_frames, &sc.a.hw, &sc.b.hw, &bn.ctx);
    let seen = read_rx(&mut bn.pair.b.sockets, &bn.sb);
    let mut vd = Verdicts { out: &mut out, part: "b2b", ctx_desc: format!("{} | {}", hist, desc), no_raw: false, sig_suffix: String::new() };
    report_wire_defects(&mut vd, &view, &|d| flows.iter().any(|f| f.matches(d)));
    report_abandoned(&mut vd, &view, "A", "");
    let mut all_found = true;
    for f in &flows {
        let want = f.datagram();
        let found = check_wire_datagram(&mut vd, &view, f, &want, &a_frames);
        vd.out.evals += 1;
        if found != 1 {
            all_found = false;
            vd.fail(
                format!("c20:b2b:tx:{}:datagram-count", proto_name(want[6])),
                format!("the datagram \"{}\" appears {} times complete in A's frames ({} frames emitted, {} fragment trains abandoned)", f.describe(), found, a_frames.len(), view.abandoned.len()),
                Json::obj().set("found", Json::u(found as u64)),
            );
        }
        // B must have every datagram that was completely on the link - unless an abandoned
        // train occupies its reassembly buffer (then B is no longer the "fresh" receiver the
        // statement talks about: fragmented datagrams may be refused, unfragmented ones not)
        let frags = view.datagrams.iter().find(|(_, d)| f.matches(&d.bytes)).map(|(_, d)| d.nfrags).unwrap_or(0);
        let owed = found >= 1 && (frags == 1 || view.abandoned.is_empty());
        let n = if found >= 1 { 1 } else { 0 };
        let n_min = if owed { 1 } else { 0 };
        // the ICMP socket on B is bound to the flow's ident, the raw socket to one protocol (UDP)
        vd.no_raw = f.proto != base.proto;
        check_rx(&mut vd, &seen, f, &want, n_min, n, "frames delivered to B in emission order");
    }
    out.count("b2b_cases", 1);
    out.count("b2b_datagrams", flows.len() as u64);
    out.count("frames_judged", view.frames as u64);
    out.count("fragment_frames", view.frag_frames as u64);
    if all_found {
        out.count("b2b_all_datagrams_on_link", 1);
    }
    let nlarge = flows.iter().filter(|f| f.payload.len() >= 100).count();
    out.class(format!("b2b|n={}|large={}|echo={}|{}", flows.len(), nlarge, flows.iter().filter(|f| f.proto == Proto::Echo).count(), if all_found { "complete" } else { "lost" }));
    out.class(format!("b2b|addr|{}>{}", sc.sclass, sc.dclass));
    if idx == 0 {
        out.sample = Some(Json::obj().set("scenario", Json::s(desc)).set("history", Json::s(hist)).set("frames", Json::u(a_frames.len() as u64)));
    }
    out
}

pub fn monitor() -> super::Monitor {
    super::Monitor {
        id: "C20",
        rule: RULE,
        assumptions: &[
            "smoltcp's neighbour discovery only learns 8-octet link-layer addresses, so unicast flows A->B use extended addresses; short addresses are exercised with multicast flows (A and/or B short) and with independently built frames (part recv)",
            "the emitter never uses address contexts; context-based encodings (and every other RFC 6282 encoding smoltcp never emits: TF in-line with zero values, in-line hop limit, all UDP port forms, elided UDP checksum, CID octet) are driven with independently built frames at the receiver; traffic class and flow label are always 0 (the only values smoltcp can send)",
            "'must be sent': the uncompressed datagram fits FRAGMENTATION_BUFFER_SIZE and REASSEMBLY_BUFFER_SIZE; larger datagrams may be dropped or sent, but never partially and never corrupted",
            "'order the reassembler can track': fresh receiver, and no prefix of the arrival order needs more than ASSEMBLER_MAX_SEGMENT_COUNT disjoint ranges; for all other orders B may deliver nothing or the exact datagram; B never delivers more copies than the minimum multiplicity of a fragment on the link",
            "a receiver whose only reassembly buffer is occupied by a train the sender abandoned is not 'fresh': missing deliveries of later fragmented datagrams are then attributed to the sender's defect (frag-train-abandoned), not reported separately",
            "in half of the scenarios with a joined group B's radio refuses transmit() (receive-only observer); in the other half B emits its MLD reports over 6LoWPAN (before the fix for that path every such scenario panicked)",
            "datagrams with a hop-by-hop header are demanded only in the encoding smoltcp itself uses (LOWPAN_NHC, padding kept); for the in-line and pad-elided RFC encodings only 'nothing or exact' is checked; raw sockets do not see datagrams with extension headers",
            "TCP: segments cannot be constructed from send parameters; judged are checksum/addresses/ports (hop limit for segments the socket dispatches itself), equality of every datagram a raw socket on the receiver sees with one decoded independently from the link, the byte streams, and the SYN against a Medium::Ip twin with the same seed",
        ],
        floors: Box::leak(vec![
            ("emit_cases", 5_000),
            ("emit_datagrams_compared", 5_000),
            ("emit_fragmented", 2_000),
            ("emit_multicast", 500),
            ("emit_delivered_e2e", 5_000),
            ("echo_replies_checked", 500),
            ("twin_compared", 5_000),
            ("udp_checksum_ffff_cases", 100),
            ("tcp_cases", 500),
            ("tcp_transfers_complete", 400),
            ("tcp_datagrams_compared_raw", 10_000),
            ("perm_orders_judged", 50_000),
            ("perm_orders_must_deliver", 40_000),
            // with a large range table (chk-big: 32) no order of <= 6 fragments is untrackable
            ("perm_orders_untrackable", if smoltcp::config::ASSEMBLER_MAX_SEGMENT_COUNT <= 8 { 100 } else { 0 }),
            ("recv_cases", 10_000),
            ("recv_context_based", 3_000),
            ("recv_fragmented", 3_000),
            ("recv_delivered", 5_000),
            ("b2b_cases", 1_000),
            ("b2b_all_datagrams_on_link", 500),
            ("frames_judged", 100_000),
            ("distinct", 300),
        ].into_boxed_slice()),
        parts: vec![
            super::Part { name: "emit", cases: |c| c.n(40_000, 400_000), f: emit_case },
            super::Part { name: "tcp", cases: |c| c.n(5_000, 50_000), f: tcp_case },
            super::Part { name: "perm", cases: |c| c.n(4_000, 40_000), f: perm_case },
            super::Part { name: "recv", cases: |c| c.n(80_000, 800_000), f: recv_case },
            super::Part { name: "b2b", cases: |c| c.n(12_000, 120_000), f: b2b_case },
        ],
        post: None,
    }
}
