//! C05 sender monitor: watches every frame emitted by one TCP socket and every
//! frame delivered to it, plus the application's writes, and judges each
//! emitted segment (window, MSS/MTU, content, ordering, FIN placement, window
//! field scaling).  All state is derived from the wire and from the API calls,
//! never from the socket's internals.
use crate::indep::{ip, tcp as itcp, Addr};
use crate::util::rng::stream_byte;

pub struct SenderMon {
    pub tag: u64,
    me: Addr,
    peer: Addr,
    my_port: u16,
    peer_port: u16,
    ip_mtu: usize,
    rx_cap: usize,
    // learned from our own frames
    iss: Option<u32>,
    our_ws: Option<u8>,
    syn_has_ack: bool,
    // learned from delivered frames
    peer_syn_seen: bool,
    peer_mss: Option<u16>,
    peer_ws: Option<u8>,
    /// highest right edge (stream offset relative to ISS+1) ever delivered to the socket
    edge: Option<i64>,
    // application
    written: u64,
    close_at: Option<u64>,
    // emission bookkeeping (stream offsets)
    snd_max: i64,
    fin_sent_at: Option<i64>,
    /// the socket has keep-alive enabled: one 0x00 octet just below SND.NXT is then legitimate
    pub keep_alive: bool,
    pub stats: SenderStats,
}

#[derive(Default, Clone, Debug)]
pub struct SenderStats {
    pub data_segments: u64,
    pub retransmitted_segments: u64,
    pub probes: u64,
    pub keep_alives: u64,
    pub syns: u64,
    pub fins: u64,
    pub min_slack: Option<i64>,
    pub window_checks: u64,
    pub edge_shrank: u64,
    pub bytes_checked: u64,
    last_edge_seen: Option<i64>,
}

impl SenderMon {
    pub fn new(tag: u64, me: Addr, peer: Addr, my_port: u16, peer_port: u16, ip_mtu: usize, rx_cap: usize) -> SenderMon {
        SenderMon {
            tag,
            me,
            peer,
            my_port,
            peer_port,
            ip_mtu,
            rx_cap,
            iss: None,
            our_ws: None,
            syn_has_ack: false,
            peer_syn_seen: false,
            peer_mss: None,
            peer_ws: None,
            edge: None,
            written: 0,
            close_at: None,
            snd_max: 0,
            fin_sent_at: None,
            keep_alive: false,
            stats: SenderStats::default(),
        }
    }

    pub fn on_app_write(&mut self, n: u64) {
        self.written += n;
    }
    pub fn on_close(&mut self) {
        if self.close_at.is_none() {
            self.close_at = Some(self.written);
        }
    }

    /// shift that applies to the window fields the PEER sends us
    fn peer_shift(&self) -> u32 {
        match (self.peer_ws, self.our_ws) {
            (Some(p), Some(_)) => p.min(14) as u32,
            _ => 0,
        }
    }
    /// shift that applies to the window fields WE send
    fn our_shift(&self) -> u32 {
        match (self.peer_ws, self.our_ws) {
            (Some(_), Some(o)) => o.min(14) as u32,
            _ => 0,
        }
    }

    fn off(&self, seq: u32) -> Option<i64> {
        let iss = self.iss?;
        // unwrap around the highest offset sent so far
        let base = iss.wrapping_add(1).wrapping_add(self.snd_max as u32);
        Some(self.snd_max + itcp::seq_diff(seq, base))
    }

    pub fn on_delivered(&mut self, ip_packet: &[u8]) {
        let Ok(info) = ip::parse(ip_packet, false) else { return };
        if info.proto != ip::PROTO_TCP || info.src != self.peer || info.dst != self.me {
            return;
        }
        if info.frag_offset != 0 || info.more_frags || !info.v4_header_ok {
            return;
        }
        let Ok(seg) = itcp::parse(&info.src, &info.dst, &ip_packet[info.payload_off..info.payload_off + info.payload_len]) else {
            return;
        };
        if !seg.checksum_ok || seg.sport != self.peer_port || seg.dport != self.my_port {
            return;
        }
        if seg.is(itcp::RST) {
            return;
        }
        if seg.is(itcp::SYN) {
            if !self.peer_syn_seen {
                self.peer_syn_seen = true;
                self.peer_mss = seg.mss;
                self.peer_ws = seg.wscale;
            }
        }
        if seg.is(itcp::ACK) {
            let shift = if seg.is(itcp::SYN) { 0 } else { self.peer_shift() };
            if let Some(a) = self.off(seg.ack) {
                // An ACK for something the application has not even written yet is not
                // acceptable for any TCP (RFC 9293 3.10.7.4: SEG.ACK > SND.NXT => drop);
                // no window can be learned from it.
                if a > self.written as i64 + 2 {
                    return;
                }
                let e = a + ((seg.wnd as i64) << shift);
                if let Some(prev) = self.stats.last_edge_seen {
                    if e < prev {
                        self.stats.edge_shrank += 1;
                    }
                }
                self.stats.last_edge_seen = Some(e);
                self.edge = Some(self.edge.map_or(e, |x| x.max(e)));
            }
        }
    }

    fn limit_mss(&self) -> usize {
        match self.peer_mss {
            // an announced MSS of zero is meaningless and treated like an absent option
            None | Some(0) => 536,
            Some(m) => (m as usize).max(48),
        }
    }

    /// Judge one emitted IP packet. Returns (signature, description) pairs.
    pub fn on_emitted(&mut self, _now: i64, ip_packet: &[u8]) -> Vec<(String, String)> {
        let mut v = Vec::new();
        let Ok(info) = ip::parse(ip_packet, false) else { return v };
        if info.proto != ip::PROTO_TCP || info.src != self.me || info.dst != self.peer {
            return v;
        }
        if info.total_len > self.ip_mtu {
            v.push((
                "mtu:packet-larger-than-mtu".into(),
                format!("TCP packet of {} bytes on a link with IP MTU {}", info.total_len, self.ip_mtu),
            ));
        }
        if info.frag_offset != 0 || info.more_frags {
            v.push((
                "mtu:tcp-segment-fragmented".into(),
                format!(
                    "the socket produced a TCP segment larger than the MTU allows (IPv4 fragment, offset {}, MF={}, IP MTU {})",
                    info.frag_offset, info.more_frags, self.ip_mtu
                ),
            ));
            return v;
        }
        let Ok(seg) = itcp::parse(&info.src, &info.dst, &ip_packet[info.payload_off..info.payload_off + info.payload_len]) else {
            return v;
        };
        if seg.sport != self.my_port || seg.dport != self.peer_port {
            return v;
        }
        if seg.is(itcp::RST) {
            return v;
        }
        if seg.is(itcp::SYN) {
            self.stats.syns += 1;
            if self.iss.is_none() {
                self.iss = Some(seg.seq);
                self.our_ws = seg.wscale;
                self.syn_has_ack = seg.is(itcp::ACK);
            } else if self.iss != Some(seg.seq) {
                // a new connection attempt of the same socket: not driven by our scenarios
                return v;
            }
            let want = self.rx_cap.min(65535) as u16;
            if seg.wnd != want {
                v.push((
                    "window:syn-window-not-unscaled-free-space".into(),
                    format!(
                        "SYN{} advertises window field {} but the empty receive buffer has {} bytes (unscaled value expected: {}; window-scale option {:?})",
                        if seg.is(itcp::ACK) { "|ACK" } else { "" },
                        seg.wnd,
                        self.rx_cap,
                        want,
                        seg.wscale
                    ),
                ));
            }
            if seg.is(itcp::ACK) && seg.wscale.is_some() && self.peer_ws.is_none() && self.peer_syn_seen {
                v.push((
                    "window:ws-option-not-negotiated".into(),
                    "SYN|ACK carries a window-scale option although the peer's SYN had none".into(),
                ));
            }
            if !seg.payload.is_empty() {
                v.push(("order:data-on-syn".into(), "SYN segment carries data".into()));
            }
            return v;
        }
        let Some(_iss) = self.iss else { return v };
        // ---- window field of non-SYN segments
        if seg.is(itcp::ACK) {
            let adv = (seg.wnd as u64) << self.our_shift();
            if adv > self.rx_cap as u64 {
                v.push((
                    "window:advertised-exceeds-buffer".into(),
                    format!(
                        "segment advertises window field {} << negotiated shift {} = {} bytes, the receive buffer holds {}",
                        seg.wnd,
                        self.our_shift(),
                        adv,
                        self.rx_cap
                    ),
                ));
            }
        }
        let Some(s) = self.off(seg.seq) else { return v };
        let len = seg.payload.len() as i64;
        let e = s + len;
        // keep-alive (only when the application enabled it): one 0x00 octet placed just below the
        // sequence number an empty ACK would carry; it announces nothing new and is exempt from
        // the content and window rules
        if self.keep_alive && len == 1 && seg.payload[0] == 0 && !seg.is(itcp::FIN) && (s == self.snd_max - 1 || (self.fin_sent_at == Some(self.snd_max) && s == self.snd_max)) {
            self.stats.keep_alives += 1;
            return v;
        }
        if len > 0 {
            self.stats.data_segments += 1;
            // ---- content
            if s < 0 || (e as u64) > self.written {
                v.push((
                    "content:bytes-never-written".into(),
                    format!(
                        "data segment covers stream offsets [{},{}) but the application has written {} bytes",
                        s, e, self.written
                    ),
                ));
            } else {
                for (k, b) in seg.payload.iter().enumerate() {
                    let exp = stream_byte(self.tag, (s as u64) + k as u64);
                    if *b != exp {
                        v.push((
                            if e <= self.snd_max { "content:retransmission-differs".into() } else { "content:data-differs".into() },
                            format!(
                                "segment [{},{}) carries {:#04x} at stream offset {} where the application wrote {:#04x}",
                                s, e, b, s + k as i64, exp
                            ),
                        ));
                        break;
                    }
                }
                self.stats.bytes_checked += len as u64;
            }
            // ---- window
            self.stats.window_checks += 1;
            match self.edge {
                None => v.push((
                    "window:data-before-any-window".into(),
                    format!("data segment [{},{}) sent before any window was learned from the peer", s, e),
                )),
                Some(edge) => {
                    let slack = edge - e;
                    if e > edge {
                        if len == 1 && s == edge {
                            self.stats.probes += 1;
                        } else {
                            v.push((
                                if e <= self.snd_max { "window:retransmission-beyond-window".into() } else { "window:data-beyond-window".into() },
                                format!(
                                    "data segment [{},{}) ({} bytes{}) extends {} bytes beyond the highest right edge {} ever delivered to the socket",
                                    s, e, len, if e <= self.snd_max { ", retransmission" } else { "" }, e - edge, edge
                                ),
                            ));
                        }
                    } else {
                        self.stats.min_slack = Some(self.stats.min_slack.map_or(slack, |m| m.min(slack)));
                    }
                }
            }
            // ---- size
            let lim = self.limit_mss().min(self.ip_mtu.saturating_sub(info.header_len + 20));
            if seg.payload.len() + seg.opt_len > lim {
                v.push((
                    "mss:segment-exceeds-mss".into(),
                    format!(
                        "segment carries {} payload + {} option bytes; peer announced MSS {:?} (limit {}), IP MTU {}",
                        seg.payload.len(), seg.opt_len, self.peer_mss, self.limit_mss(), self.ip_mtu
                    ),
                ));
            }
            // ---- ordering of new data
            if e > self.snd_max {
                if s > self.snd_max {
                    v.push((
                        "order:gap-in-new-data".into(),
                        format!("new data segment starts at stream offset {} but only {} bytes were ever sent", s, self.snd_max),
                    ));
                }
            } else {
                self.stats.retransmitted_segments += 1;
            }
            if let Some(f) = self.fin_sent_at {
                if e > f {
                    v.push((
                        "fin:data-after-fin".into(),
                        format!("data segment [{},{}) extends beyond the FIN sent at stream offset {}", s, e, f),
                    ));
                }
            }
        }
        if seg.is(itcp::FIN) {
            self.stats.fins += 1;
            match self.close_at {
                None => v.push(("fin:without-close".into(), format!("FIN at stream offset {} although the application never closed", e))),
                Some(c) => {
                    if e == -1 && c == 0 {
                        v.push((
                            "fin:at-the-sequence-number-of-the-unacknowledged-syn".into(),
                            "FIN sent with the sequence number of the socket's own SYN (close() before the handshake completed, then a retransmission)".into(),
                        ));
                    } else if e as u64 != c {
                        v.push((
                            "fin:not-at-end-of-stream".into(),
                            format!("FIN at stream offset {} but the application wrote {} bytes before close()", e, c),
                        ));
                    }
                }
            }
            if let Some(f) = self.fin_sent_at {
                if f != e {
                    v.push(("fin:moved".into(), format!("FIN first sent at stream offset {}, now at {}", f, e)));
                }
            } else {
                self.fin_sent_at = Some(e);
            }
        }
        if e > self.snd_max {
            self.snd_max = e;
        }
        v
    }
}
