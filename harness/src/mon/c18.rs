//! C18 – the DHCPv4 client never uses an address beyond its lease.
//!
//! Workload and oracle live in `sim::dhcp_net`; this file draws the
//! configurations of the three parts and turns a run into evidence.
//!   * `script`  : anything goes – random retry configuration, lease menu,
//!                 loss/duplication/delay, defective and unsolicited messages;
//!   * `lease`   : a correct server that falls silent after the first ACK(s):
//!                 renew -> rebind -> expiry for every lease/T1/T2/max-lease shape;
//!   * `hostile` : mostly defective or out-of-place server messages, several per
//!                 client message (same ingress batch);
//!   * `witness` : two fixed minimal scenarios documenting finding C18-F2.
use crate::sim::dhcp_net::*;
use crate::sim::Micros;
use crate::util::json::Json;
use crate::util::rng::Rng;
use crate::util::run::*;

pub const RULE: &str = "the harness is the network of one Ethernet host running dhcpv4::Socket and applies the reported configuration like examples/dhcp_client.rs; every frame is judged with the independent codec. valid ACK := DHCPACK on UDP 67->68 handed to the client, xid == xid of the client's most recent transmission, chaddr == the client's, server-id (4 octets) present, some contiguous mask, unicast yiaddr. (1) every Configured(c) event follows a poll that was handed a valid ACK granting c.address [separate signature when the most recent client message was not a DHCPREQUEST]; (2) E := max over valid ACKs since the most recent *definite* ACK (inclusive; a definite ACK is one built by the faithful server path with an explicit lease, matching the client's current xid, handed over alone to a bound client - the client is certain to take it, so it replaces every earlier grant) or else since the last Deconfigured, of (hand-over time + min(lease, max_lease), 120 s if option 51 is absent): after any Interface::poll at now >= E the last event is Deconfigured, no DHCP message uses the address at or after E, and while configured Interface::poll_at <= E; (3) within one lease no unicast renewal follows a broadcast rebind; a lease that runs out with silent servers (ARP answered, polls at poll_at) saw at least one renewing/rebinding REQUEST; (4) unconfigured: consecutive DISCOVER/REQUEST and poll_at stay within max(discover_timeout, initial_request_timeout << ((retries-1)/2)). A class is (lease shape) | (defect kind x client state) | event kind.";

const TIMEOUTS: &[Micros] = &[1_000, 10_000, 100_000, 1_000_000, 5_000_000, 10_000_000, 60_000_000, 3_600_000_000];

fn retry_cfg(rng: &mut Rng) -> (Micros, Micros, u16) {
    let discover = *rng.pick(TIMEOUTS);
    let initial = *rng.pick(TIMEOUTS);
    let mut retries = match rng.below(10) {
        0 => 0,
        1 => 1,
        2 => 2,
        3 => 3,
        4 | 5 => 5,
        6 => 8,
        7 => 20,
        8 => rng.range(0, 20) as u16,
        _ => rng.range(21, 60) as u16,
    };
    // keep initial << ((retries-1)/2) below 2^45 us (about a year): beyond that the
    // back-off leaves the range in which virtual time can be represented at all
    while retries > 1 && (initial as u128) << ((retries - 1) / 2) > (1u128 << 45) {
        retries -= 1;
    }
    (discover, initial, retries)
}

fn max_lease(rng: &mut Rng) -> Option<Micros> {
    match rng.below(10) {
        0..=4 => None,
        5 => Some(10_000_000),
        6 => Some(*rng.pick(&[1_000i64, 500_000, 1_000_000, 2_000_000])),
        7 => Some(60_000_000),
        8 => Some(3_600_000_000),
        _ => Some(rng.range(1, 1u64 << 40) as Micros),
    }
}

fn base_cfg(rng: &mut Rng) -> DhcpCfg {
    let (discover_timeout, initial_request_timeout, request_retries) = retry_cfg(rng);
    let net = rng.below(250) as u8;
    let prefix_mask = *rng.pick(&[[255u8, 255, 255, 0], [255, 255, 0, 0], [255, 255, 255, 252], [255, 255, 255, 255], [0, 0, 0, 0], [255, 255, 255, 128]]);
    let server_ip = match rng.below(8) {
        0 => [192, 0, 2, 1], // off-link server (relay)
        _ => [10, net, 0, 1],
    };
    DhcpCfg {
        discover_timeout,
        initial_request_timeout,
        request_retries,
        min_renew_timeout: *rng.pick(&[1_000i64, 1_000_000, 60_000_000, 60_000_000, 600_000_000]),
        max_renew_timeout: match rng.below(4) {
            0 => Some(*rng.pick(&[1_000i64, 1_000_000, 30_000_000, 3_600_000_000])),
            _ => None,
        },
        max_lease: max_lease(rng),
        ignore_naks: rng.chance(1, 8),
        mtu: *rng.pick(&[1514usize, 1514, 1514, 590, 800, 9000]),
        iface_seed: rng.next_u64(),
        c2s_loss_pm: 0,
        s2c_loss_pm: 0,
        dup_pm: 0,
        latencies: vec![0],
        arp_answer_pm: 1000,
        arp_latency: 0,
        arp_prefill: true,
        early_poll_pm: 0,
        late_poll_pm: 0,
        base: random_lease(rng),
        vary_lease_pm: 0,
        defect_pm: 0,
        extra_pm: 0,
        odd_kind_pm: 0,
        inject_pm: 0,
        silent_after_acks: None,
        silence_len: 0,
        server_ip,
        server_id: if rng.chance(1, 6) { [10, net, 0, 200] } else { server_ip },
        pool: [10, net, 0, 2 + rng.below(200) as u8],
        mask: prefix_mask,
        router: match rng.below(4) {
            0 => None,
            1 => Some([10, net, 0, 254]),
            _ => Some([10, net, 0, 1]),
        },
        max_polls: 260,
    }
}

fn cfg_script(rng: &mut Rng) -> DhcpCfg {
    let mut c = base_cfg(rng);
    let lossy = rng.below(3);
    if lossy > 0 {
        c.c2s_loss_pm = *rng.pick(&[0u32, 50, 200, 500]);
        c.s2c_loss_pm = *rng.pick(&[0u32, 50, 200, 500]);
        c.dup_pm = *rng.pick(&[0u32, 100, 400]);
    }
    c.latencies = match rng.below(4) {
        0 => vec![0],
        1 => vec![0, 1, 1_000],
        2 => vec![0, 1_000, 300_000, 2_000_000, 20_000_000],
        _ => vec![500, 5_000_000, 120_000_000, 4_000_000_000],
    };
    if rng.chance(1, 3) {
        c.arp_answer_pm = *rng.pick(&[1000u32, 900, 500, 0]);
        c.arp_latency = *rng.pick(&[0i64, 100, 400_000, 1_500_000]);
        c.arp_prefill = rng.chance(1, 2);
    }
    c.early_poll_pm = *rng.pick(&[0u32, 100, 400]);
    c.late_poll_pm = *rng.pick(&[0u32, 0, 50, 200]);
    c.vary_lease_pm = *rng.pick(&[0u32, 300, 1000]);
    c.defect_pm = *rng.pick(&[0u32, 50, 200, 500]);
    c.extra_pm = *rng.pick(&[0u32, 100, 400]);
    c.odd_kind_pm = *rng.pick(&[0u32, 50, 300]);
    c.inject_pm = *rng.pick(&[0u32, 0, 20, 100]);
    if rng.chance(1, 3) {
        c.silent_after_acks = Some(rng.range(1, 4) as u32);
        c.silence_len = *rng.pick(&[10_000_000i64, 600_000_000, 86_400_000_000, 1 << 50]);
    }
    c
}

fn cfg_lease(rng: &mut Rng) -> DhcpCfg {
    let mut c = base_cfg(rng);
    c.ignore_naks = false;
    // on-link server so that a unicast renewal can be observed
    c.server_ip = [10, c.pool[1], 0, 1];
    c.server_id = c.server_ip;
    c.mask = *rng.pick(&[[255u8, 255, 255, 0], [255, 255, 0, 0], [255, 0, 0, 0]]);
    c.silent_after_acks = Some(*rng.pick(&[1u32, 1, 1, 2, 3]));
    c.silence_len = *rng.pick(&[1i64 << 50, 1 << 50, 3_000_000, 200_000_000]);
    c.vary_lease_pm = *rng.pick(&[0u32, 0, 500]);
    match rng.below(6) {
        0 => {
            c.arp_answer_pm = *rng.pick(&[0u32, 500]);
            c.arp_prefill = false;
        }
        1 => {
            c.arp_latency = *rng.pick(&[1i64, 300_000, 1_200_000]);
            c.arp_prefill = rng.chance(1, 2);
        }
        _ => {}
    }
    c.early_poll_pm = *rng.pick(&[0u32, 0, 200]);
    c.late_poll_pm = *rng.pick(&[0u32, 0, 0, 150]);
    c.dup_pm = *rng.pick(&[0u32, 0, 300]);
    c.max_polls = 200;
    c
}

fn cfg_hostile(rng: &mut Rng) -> DhcpCfg {
    let mut c = base_cfg(rng);
    c.defect_pm = *rng.pick(&[400u32, 700, 900]);
    c.extra_pm = *rng.pick(&[300u32, 600]);
    c.odd_kind_pm = *rng.pick(&[100u32, 400]);
    c.inject_pm = *rng.pick(&[0u32, 100, 300]);
    c.vary_lease_pm = 700;
    c.latencies = match rng.below(3) {
        0 => vec![0],
        1 => vec![0, 0, 1, 50_000],
        _ => vec![0, 2_000_000, 15_000_000],
    };
    c.dup_pm = *rng.pick(&[0u32, 200]);
    c.s2c_loss_pm = *rng.pick(&[0u32, 100]);
    c.early_poll_pm = *rng.pick(&[0u32, 200]);
    c
}

fn run(idx: u64, rng: &mut Rng, ctx: &Ctx, cfg: DhcpCfg, part: &str) -> CaseOut {
    let mut out = CaseOut::default();
    let mut sim = DhcpSim::new(cfg.clone());
    sim.trace_on = ctx.verbose;
    if ctx.verbose {
        println!("config: {:?}", cfg);
    }
    sim.run(rng);
    let st = sim.stats.clone();
    if ctx.verbose {
        println!("stats: {:?}", st);
    }
    out.evals = st.evals;
    for c in &sim.classes {
        out.class(format!("{}:{}", part, c));
    }
    out.class(format!("lease-shape:{}", cfg.base.class(cfg.max_lease)));
    out.class(format!(
        "retry:d={}us i={}us r={}",
        cfg.discover_timeout,
        cfg.initial_request_timeout,
        match cfg.request_retries {
            0 => "0",
            1 => "1",
            2..=5 => "2-5",
            6..=20 => "6-20",
            _ => ">20",
        }
    ));
    out.count("runs", 1);
    out.count("polls", st.polls);
    out.count("client_discovers", st.client_discovers);
    out.count("client_selecting_requests", st.client_requests);
    out.count("client_unicast_renewals", st.client_renews);
    out.count("client_broadcast_rebinds", st.client_rebinds);
    out.count("client_arp_requests", st.client_arps);
    out.count("server_messages_delivered", st.server_msgs_delivered);
    out.count("server_messages_lost", st.server_msgs_lost);
    out.count("client_messages_lost", st.client_msgs_lost);
    out.count("acks_delivered", st.acks_delivered);
    out.count("valid_acks_delivered", st.valid_acks);
    out.count("definite_acks_replacing_the_lease", st.definite_acks);
    out.count("invalid_acks_delivered", st.invalid_acks);
    out.count("naks_delivered", st.naks_delivered);
    out.count("offers_delivered", st.offers_delivered);
    out.count("configured_events", st.configured_events);
    out.count("deconfigured_events", st.deconfigured_events);
    out.count("lease_expiries_observed", st.expiries_observed);
    out.count("expiry_polled_exactly_at_E", st.expiry_polls_exact);
    out.count("expiry_polled_after_E", st.expiry_polls_late);
    out.count("poll_at_checks_while_configured", st.poll_at_checks_configured);
    out.count("poll_at_checks_while_unconfigured", st.poll_at_checks_unconfigured);
    out.count("solicit_spacing_checks", st.spacing_checks);
    out.count("silent_server_leases_judged", st.silent_lease_phases);
    out.count("renew_rebind_order_checks", st.order_checks);
    out.count("early_polls", st.early_polls);
    out.count("late_polls", st.late_polls);
    out.count("time_steps_after_poll_at_said_now_without_progress", st.spin_cut);
    for v in sim.violations {
        out.violate(v);
    }
    if idx == 0 {
        out.sample = Some(
            Json::obj()
                .set("part", Json::s(part))
                .set("config", Json::s(format!("{:?}", cfg)))
                .set("stats", Json::s(format!("{:?}", st)))
                .set("trace_head", Json::Arr(sim.trace.iter().take(30).map(|s| Json::s(s.clone())).collect())),
        );
    }
    out
}

pub fn script_case(i: u64, r: &mut Rng, c: &Ctx) -> CaseOut {
    let cfg = cfg_script(r);
    run(i, r, c, cfg, "script")
}
pub fn lease_case(i: u64, r: &mut Rng, c: &Ctx) -> CaseOut {
    let cfg = cfg_lease(r);
    run(i, r, c, cfg, "lease")
}
pub fn hostile_case(i: u64, r: &mut Rng, c: &Ctx) -> CaseOut {
    let cfg = cfg_hostile(r);
    run(i, r, c, cfg, "hostile")
}

/// Deterministic minimal scenarios (documentation of the known findings; see FINDINGS.md).
/// case 0: default retry configuration, an on-link server grants 3 s and falls silent, nobody answers ARP.
/// case 1: the same with a 1 s lease.
fn cfg_witness(idx: u64) -> DhcpCfg {
    let (lease, t1, t2) = if idx % 2 == 0 { (3, None, None) } else { (1, None, None) };
    DhcpCfg {
        discover_timeout: 10_000_000,
        initial_request_timeout: 5_000_000,
        request_retries: 5,
        min_renew_timeout: 60_000_000,
        max_renew_timeout: None,
        max_lease: None,
        ignore_naks: false,
        mtu: 1514,
        iface_seed: 1 + idx,
        c2s_loss_pm: 0,
        s2c_loss_pm: 0,
        dup_pm: 0,
        latencies: vec![0],
        arp_answer_pm: 0,
        arp_latency: 0,
        arp_prefill: false,
        early_poll_pm: 0,
        late_poll_pm: 0,
        base: LeaseParams { lease: Some(lease), t1, t2 },
        vary_lease_pm: 0,
        defect_pm: 0,
        extra_pm: 0,
        odd_kind_pm: 0,
        inject_pm: 0,
        silent_after_acks: Some(1),
        silence_len: 1 << 50,
        server_ip: [10, 0, 0, 1],
        server_id: [10, 0, 0, 1],
        pool: [10, 0, 0, 50],
        mask: [255, 255, 255, 0],
        router: Some([10, 0, 0, 1]),
        max_polls: 12,
    }
}

pub fn witness_case(i: u64, r: &mut Rng, c: &Ctx) -> CaseOut {
    run(i, r, c, cfg_witness(i), "witness")
}

pub fn monitor() -> super::Monitor {
    super::Monitor {
        id: "C18",
        rule: RULE,
        assumptions: &[
            "retry configurations are drawn with timeouts 1 ms .. 1 h and request_retries 0 .. 60 such that initial_request_timeout << ((retries-1)/2) stays below 2^45 us; larger products need more virtual time than Instant can represent before the shift overflows",
            "'unicast address' = not 0.0.0.0, not 224/4, not 255.255.255.255 (subnet-directed broadcasts are not judged)",
            "a message with several option-51 instances (or a malformed one) may be read either way: the largest candidate (and the 120 s default) bounds the lease",
            "solicitation bound is relaxed by 1 s (iface/socket_meta.rs DISCOVERY_SILENT_TIME: a socket whose unicast renewal could not be sent stays silent that long, also into the next discovery); it is not evaluated across deliberately late polls",
            "poll_at is judged only at instants where the harness really sleeps until poll_at (no further frame due at the same instant)",
            "runs in which neighbor resolution towards the DHCP server is not guaranteed (ARP unanswered/late, no ARP announcement after address changes, server off-link without on-link router, T1/T2 = 0 so that a renewal precedes the application of the address) report lease-expiry violations under a signature with the suffix :arp-unreliable",
            "the silent-server renewal obligation is judged only for leases >= 3 s when the DHCP server is on the leased subnet, neighbor resolution is guaranteed and no poll was late",
        ],
        floors: &[
            ("runs", 500),
            ("configured_events", 300),
            ("lease_expiries_observed", 100),
            ("expiry_polled_exactly_at_E", 30),
            ("invalid_acks_delivered", 300),
            ("valid_acks_delivered", 500),
            ("definite_acks_replacing_the_lease", 200),
            ("client_unicast_renewals", 100),
            ("client_broadcast_rebinds", 100),
            ("silent_server_leases_judged", 30),
            ("solicit_spacing_checks", 2000),
            ("poll_at_checks_while_configured", 2000),
            ("distinct", 60),
        ],
        parts: vec![
            super::Part { name: "script", cases: |c| c.n(15_000, 200_000), f: script_case },
            super::Part { name: "lease", cases: |c| c.n(12_000, 150_000), f: lease_case },
            super::Part { name: "hostile", cases: |c| c.n(12_000, 150_000), f: hostile_case },
            super::Part { name: "witness", cases: |_| 2, f: witness_case },
        ],
        post: None,
    }
}
