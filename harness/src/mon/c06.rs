//! C06 – wire representations survive emit-then-parse unchanged.
//!
//! One part per representation type.  Per generated value `r` (see
//! `gen::wire` for the generators and their domain rules) three passes:
//!  1. emit into a zero-filled, a 0xFF-filled and a garbage-filled buffer of
//!     exactly the declared length: no panic, identical bytes;
//!  2. parse the bytes the way a receiver would (checked packet constructor,
//!     all checksums verified): the result equals `r`;
//!  3. mutate the bytes (checksums repaired with smoltcp's own
//!     `fill_checksum`); whatever still parses to some `r2` must re-emit and
//!     re-parse to `r2`, again independent of the previous buffer contents.
//! Types whose emitter owns a header only (Ethernet, IPv4, IPv6, UDP, ...) are
//! wrapped in [`Framed`]: the payload is written by the harness, identically
//! in all buffers, *before* the emitter runs, and is compared after parsing.
use crate::gen::wire as g;
use crate::gen::wire::Store;
use crate::util::json::Json;
use crate::util::rng::Rng;
use crate::util::run::*;
use smoltcp::phy::ChecksumCapabilities;
use smoltcp::wire::*;
use std::collections::BTreeSet;
use std::result::Result;

pub const RULE: &str = "per generated representation r: (1) emit into zero-, 0xFF- and garbage-filled buffers of exactly the declared length must not panic and must produce identical bytes; (2) parsing those bytes like a receiver (checked constructor, all checksums verified) must give a value equal to r; (3) for mutated (checksum-repaired) bytes that still parse to r2, emit(r2) must parse back to r2 and be buffer-independent as well. A class is a (type, variant / field-class combination) string.";

pub const ASSUMPTIONS: &[&str] = &[
    "enum_with_unknown types: Unknown(x) only for x without a named variant (From<raw> canonicalises; Unknown(named) is not a distinct wire value)",
    "length-like fields fit their wire field: IPv4 payload_len <= 65515, IPv6 payload_len <= 65535, IPv6 fragment offset 13 bits, RPL routing cmpr_i/cmpr_e/pad 4 bits, MLD qrv 3 bits (setter asserts), DNS opcode 4 bits, 6LoWPAN datagram size 11 bits",
    "header-only emitters (EthernetRepr, Ipv4Repr, Ipv6Repr, IpRepr, Ipv6ExtHeaderRepr, MldAddressRecordRepr, Ieee802154Repr, SixlowpanIphcRepr, SixlowpanExtHeaderRepr, MldRepr::ReportRecordReprs whose buffer_len() is the fixed part): declared length = header + caller payload; redundant length fields agree with the payload (Ipv6ExtHeaderRepr.data.len() == 8*length+6, Ipv6OptionRepr::Unknown.data.len() == length, NdiscOptionRepr::Unknown.data.len() == 8*length-2)",
    "UdpRepr: dst_port != 0; TcpRepr: both ports != 0 (documented rejects in parse)",
    "TcpRepr: window_scale <= 14 (parse clamps, RFC 7323); SACK blocks occupy the leading slots and appear only with an ACK and without sack_permitted (emit writes them only then); options fit 40 octets; max_seg_size/window_scale/sack_permitted are parsed on every segment, so they are generated on every segment kind",
    "TcpOption::Unknown: kind not interpreted by the parser (not 0..=5, not (8, length 10)), body <= 38 octets; TcpOption::SackRange: 1..=3 blocks in the leading slots",
    "Icmpv4Repr errors: quoted data >= 8 octets (parse rejects less); header.payload_len == data.len() (parse defines it so). The case header.payload_len > data.len() (quoted header keeps the original length, RFC 792) is generated at a low rate as candidate sub-domain 'Icmpv4Repr/quoted-len>data'",
    "Icmpv6Repr errors: quoted data <= 1192 octets (1280-40-8-40; emit cuts longer data to the minimum MTU by design)",
    "NDISC link-layer address options: address length 6 or 8 (the option has no address length of its own, only a length in units of 8 octets); NdiscRepr: router_lifetime whole seconds < 2^16, reachable/retrans time whole milliseconds < 2^32, prefix lifetimes whole seconds < 2^32, flags = defined bits; RedirectedHeader: header.payload_len == data.len() (a differing length is generated at a low rate as candidate sub-domain 'NdiscOptionRepr/redirected-len!=data')",
    "NdiscOptionRepr::Unknown / Ipv6OptionRepr::Unknown: type not interpreted by the parser",
    "MLD: AddressRecord.mcast_addr is multicast (setter asserts); MldRepr::ReportRecordReprs is emit-only: it is compared with the parsed MldRepr::Report by re-parsing each 20-octet record",
    "IgmpRepr: group address 0.0.0.0 or multicast (parse rejects others); max_resp_time exactly representable by the 8-bit Max Resp Code (RFC 3376 floating point), 0 for version 1 and a non-zero code for version 2 (the version is derived from the code)",
    "Ipv6HopByHopRepr: at least one option (an empty options area is rejected by check_len)",
    "DhcpRepr: additional_options are by documented design not returned by parse: they are compared against the raw option list of the emitted packet; their kinds are not interpreted by smoltcp, not PAD/END; parameter_request_list <= 255 octets",
    "DnsQuestion / DnsRepr: names are well-formed wire names (labels 1..=63 octets, <= 255 octets, terminated by the root label or a compression pointer). DnsRepr has no parse(): it is read back through the DnsPacket accessors and DnsQuestion::parse, exactly like socket::dns does; it describes a query with QDCOUNT=1 and no records",
    "Ieee802154Repr: directly generated values are addressed frames in the layout emit() implements (destination PAN and both addresses present, source PAN iff !pan_id_compression, not (extended,extended) for version 2015, named frame version); if security_enabled the payload is long enough for a complete auxiliary security header and the message integrity code its security level announces. Other layouts are reached through mutation only and reported under 'Ieee802154Repr/unsupported-layout'",
    "SixlowpanIphcRepr: ll_src_addr/ll_dst_addr equal the link-layer addresses passed to parse; (ecn, dscp, flow_label) is one of the four combinations IPHC can express; values with inline traffic-class fields are tagged 'SixlowpanIphcRepr/tf-inline'",
    "IpRepr::parse needs wire::ip::Packet, which is not exported: the generic IpRepr is parsed by dispatching on IpVersion::of_packet to Ipv4Repr/Ipv6Repr::parse, as IpRepr::parse does",
    "pass 3 skips a parsed value only where the unchanged parser can legitimately return one outside the rules above (counted as mutants_out_of_domain): TcpRepr with SACK blocks but no ACK / with sack_permitted, Icmpv6Repr errors quoting more than 1192 octets, MldAddressRecordRepr with a non-multicast address, DNS messages whose section counts are not (1,0,0,0); every other rule is guaranteed by the parser and deliberately not re-checked, so that a parser that stops guaranteeing it is caught by the round trip of the parsed value",
];

const VALUES_PER_CASE: u64 = 8;
const MUTANTS: usize = 4;

fn caps() -> ChecksumCapabilities {
    ChecksumCapabilities::default()
}

/// A header-only representation together with the payload the caller owns.
#[derive(Debug, PartialEq)]
pub struct Framed<'a, R> {
    pub repr: R,
    pub payload: &'a [u8],
}

/// Adapter between the generic oracle and one representation type.
pub trait Wire: 'static {
    const NAME: &'static str;
    type Repr<'a>;
    fn gen<'a>(s: &'a Store, rng: &mut Rng) -> Self::Repr<'a>;
    fn classes(s: &Store, r: &Self::Repr<'_>) -> Vec<String>;
    fn dbg(r: &Self::Repr<'_>) -> String;
    fn eq(a: &Self::Repr<'_>, b: &Self::Repr<'_>) -> bool;
    /// declared length: buffer_len(), or header length + caller payload
    fn len(s: &Store, r: &Self::Repr<'_>) -> usize;
    fn emit(s: &Store, r: &Self::Repr<'_>, buf: &mut [u8]);
    /// parse like a receiver and hand the result to `k`
    fn with_parse(s: &Store, buf: &[u8], k: &mut dyn FnMut(Result<&Self::Repr<'_>, ()>));

    /// names of the fields in which `a` and `b` differ
    fn diff(a: &Self::Repr<'_>, b: &Self::Repr<'_>) -> Vec<String> {
        debug_diff(&Self::dbg(a), &Self::dbg(b))
    }
    /// type name used in signatures (candidate sub-domains get their own)
    fn sig_type(_s: &Store, _r: &Self::Repr<'_>) -> String {
        Self::NAME.to_string()
    }
    /// variant (enum variant / encoding class) named in parse-error and panic signatures
    fn variant(_r: &Self::Repr<'_>) -> String {
        String::new()
    }
    /// domain rules, applied to values obtained by parsing mutants
    fn in_domain(_s: &Store, _r: &Self::Repr<'_>) -> bool {
        true
    }
    /// checks on the emitted bytes beyond what parse returns
    fn extra(_s: &Store, _r: &Self::Repr<'_>, _bytes: &[u8]) -> Vec<String> {
        Vec::new()
    }
    /// repair checksums after a mutation
    fn fix(_s: &Store, _buf: &mut [u8]) {}
    /// name of the field at a byte offset of the emitted packet
    fn field_at(_r: &Self::Repr<'_>, off: usize, _bytes: &[u8]) -> String {
        if off < 24 { format!("off{}", off) } else { "tail".to_string() }
    }
    /// a field that differs only as a consequence of other differing bytes
    fn derived_field() -> Option<&'static str> {
        None
    }
    /// number of leading bytes worth mutating (header)
    fn hot(_s: &Store, _r: &Self::Repr<'_>, n: usize) -> usize {
        n.min(64)
    }
    fn ctx(_s: &Store) -> String {
        String::new()
    }
}

// ------------------------------------------------------------------ naming the differing field

struct Node {
    head: String,
    open: char,
    kids: Vec<(String, Node)>,
}

fn skip_ws(cs: &[char], i: &mut usize) {
    while *i < cs.len() && cs[*i].is_whitespace() {
        *i += 1;
    }
}

/// Parse the output of a derived `Debug` into a tree of (field name, value).
fn parse_dbg(cs: &[char], i: &mut usize) -> Node {
    skip_ws(cs, i);
    let mut head = String::new();
    while *i < cs.len() && !"{([,})]".contains(cs[*i]) {
        head.push(cs[*i]);
        *i += 1;
    }
    let head = head.trim().to_string();
    if *i < cs.len() && "{([".contains(cs[*i]) {
        let open = cs[*i];
        *i += 1;
        let mut kids = Vec::new();
        loop {
            skip_ws(cs, i);
            if *i >= cs.len() {
                break;
            }
            if "})]".contains(cs[*i]) {
                *i += 1;
                break;
            }
            let mut name = String::new();
            if open == '{' {
                let save = *i;
                while *i < cs.len() && (cs[*i].is_alphanumeric() || cs[*i] == '_') {
                    name.push(cs[*i]);
                    *i += 1;
                }
                if *i < cs.len() && cs[*i] == ':' && !name.is_empty() {
                    *i += 1;
                } else {
                    *i = save;
                    name.clear();
                }
            }
            let before = *i;
            let kid = parse_dbg(cs, i);
            kids.push((name, kid));
            skip_ws(cs, i);
            if *i < cs.len() && cs[*i] == ',' {
                *i += 1;
            } else if *i == before {
                *i += 1; // never loop without progress
            }
        }
        Node { head, open, kids }
    } else {
        Node { head, open: ' ', kids: Vec::new() }
    }
}

fn diff_nodes(a: &Node, b: &Node, path: &mut Vec<String>, out: &mut Vec<String>) {
    if a.head != b.head || a.open != b.open || a.kids.len() != b.kids.len() {
        let p = path.join(".");
        let p = if p.is_empty() { "variant".to_string() } else { p };
        if !out.contains(&p) {
            out.push(p);
        }
        return;
    }
    for ((na, ka), (_, kb)) in a.kids.iter().zip(b.kids.iter()) {
        let named = !na.is_empty();
        if named {
            path.push(na.clone());
        }
        diff_nodes(ka, kb, path, out);
        if named {
            path.pop();
        }
    }
}

/// Field paths in which two `Debug` renderings of the same type differ.
pub fn debug_diff(a: &str, b: &str) -> Vec<String> {
    let ca: Vec<char> = a.chars().collect();
    let cb: Vec<char> = b.chars().collect();
    let na = parse_dbg(&ca, &mut 0);
    let nb = parse_dbg(&cb, &mut 0);
    let mut out = Vec::new();
    diff_nodes(&na, &nb, &mut Vec::new(), &mut out);
    let mut out: Vec<String> = out.into_iter().map(|p| p.strip_prefix("repr.").map(|x| x.to_string()).unwrap_or(p)).collect();
    if out.is_empty() {
        out.push("unnamed".to_string());
    }
    out.truncate(6);
    out
}

/// Leading identifier(s) of a `Debug` rendering: `Ndisc(RouterAdvert {..})` -> "Ndisc.RouterAdvert".
fn dbg_head(d: &str, depth: usize) -> String {
    let mut parts = Vec::new();
    let mut cur = String::new();
    for c in d.chars() {
        if c.is_alphanumeric() || c == '_' {
            cur.push(c);
        } else if c == '(' && !cur.is_empty() && parts.len() + 1 < depth {
            parts.push(std::mem::take(&mut cur));
        } else {
            break;
        }
    }
    if !cur.is_empty() {
        parts.push(cur);
    }
    parts.join(".")
}

// ------------------------------------------------------------------ the oracle

fn hex_short(b: &[u8]) -> String {
    let mut s = String::new();
    for x in b.iter().take(96) {
        s.push_str(&format!("{:02x}", x));
    }
    if b.len() > 96 {
        s.push_str(&format!("..({} bytes)", b.len()));
    }
    s
}

fn clip(mut s: String) -> String {
    if s.len() > 900 {
        let mut cut = 900;
        while !s.is_char_boundary(cut) {
            cut -= 1;
        }
        s.truncate(cut);
        s.push_str("...");
    }
    s
}

fn detail(ty: &str, repr: &str, ctx: &str, bytes: &[u8]) -> Json {
    let shown = &bytes[..bytes.len().min(2048)];
    Json::obj()
        .set("type", Json::s(ty))
        .set("repr", Json::s(clip(repr.to_string())))
        .set("context", Json::s(ctx))
        .set("len", Json::u(bytes.len() as u64))
        .set("bytes", Json::hex(shown))
}

fn panic_violation(out: &mut CaseOut, sig: String, what: &str, p: &PanicInfo, ty: &str, repr: &str, ctx: &str) {
    if !p.in_target() {
        out.harness_errors.push(format!("harness panic at {}:{}: {}", p.file, p.line, p.msg));
        return;
    }
    out.violate(
        Violation::new(
            sig,
            format!("{} panicked at {}:{}: {}; {} = {} {}", what, p.file, p.line, p.msg, ty, clip(repr.to_string()), ctx),
        )
        .with(Json::obj().set("type", Json::s(ty)).set("repr", Json::s(clip(repr.to_string()))).set("context", Json::s(ctx)).set("panic", Json::s(p.signature()))),
    );
}

/// Emit `r` into a buffer of its declared length pre-filled by `fill`.
fn emit_into<W: Wire>(s: &Store, r: &W::Repr<'_>, n: usize, fill: &dyn Fn(&mut [u8])) -> Result<Vec<u8>, PanicInfo> {
    let mut b = vec![0u8; n];
    fill(&mut b);
    catch(|| W::emit(s, r, &mut b))?;
    Ok(b)
}

/// Fields in which two emissions of the same value differ.
fn buffer_fields<W: Wire>(r: &W::Repr<'_>, a: &[u8], b: &[u8]) -> Vec<String> {
    let mut set = BTreeSet::new();
    for off in 0..a.len().min(b.len()) {
        if a[off] != b[off] {
            set.insert(W::field_at(r, off, a));
        }
    }
    if set.len() > 1 {
        if let Some(d) = W::derived_field() {
            set.remove(d);
        }
    }
    set.into_iter().take(4).collect()
}

fn default_mutate(buf: &mut [u8], hot: usize, rng: &mut Rng) {
    let n = buf.len();
    if n == 0 {
        return;
    }
    let k = 1 + rng.below(3);
    for _ in 0..k {
        let off = if rng.chance(4, 5) { rng.usize_below(hot.clamp(1, n)) } else { rng.usize_below(n) };
        match rng.below(5) {
            0 | 1 => buf[off] ^= 1 << rng.below(8),
            2 => buf[off] = rng.u8(),
            3 => buf[off] = 0,
            _ => buf[off] = 0xff,
        }
    }
}

/// Passes 1 and 2 for a value, returns the bytes emitted into the zero buffer.
fn emit_and_roundtrip<W: Wire>(out: &mut CaseOut, s: &Store, r: &W::Repr<'_>, rng: &mut Rng, reparse: bool) -> Option<Vec<u8>> {
    let ty = W::sig_type(s, r);
    let repr = W::dbg(r);
    let ctx = W::ctx(s);
    let stage = if reparse { "reparse-" } else { "" };
    let var = W::variant(r);
    let tyv = if var.is_empty() { ty.clone() } else { format!("{}:{}", ty, var) };
    let n = match catch(|| W::len(s, r)) {
        Ok(n) => n,
        Err(p) => {
            panic_violation(out, format!("{}emit-panic:{}:buffer_len", stage, ty), "buffer_len()", &p, &ty, &repr, &ctx);
            return None;
        }
    };
    // pass 1: three pre-fills
    out.evals += 1;
    let garbage = rng.bytes(n);
    let fills: [(&str, Box<dyn Fn(&mut [u8])>); 3] = [
        ("zero-filled", Box::new(|_b: &mut [u8]| ())),
        ("0xFF-filled", Box::new(|b: &mut [u8]| b.fill(0xff))),
        ("garbage-filled", Box::new(move |b: &mut [u8]| b.copy_from_slice(&garbage))),
    ];
    let mut bufs: Vec<Vec<u8>> = Vec::new();
    for (name, fill) in fills.iter() {
        match emit_into::<W>(s, r, n, fill.as_ref()) {
            Ok(b) => bufs.push(b),
            Err(p) => {
                let what = format!("emit() into a {} buffer of the declared length {}", name, n);
                panic_violation(out, format!("{}emit-panic:{}", stage, tyv), &what, &p, &ty, &repr, &ctx);
                if bufs.is_empty() {
                    return None;
                }
                break;
            }
        }
    }
    let bytes = bufs[0].clone();
    // candidate sub-domains are judged on the round trip only
    let tagged = ty != W::NAME;
    for other in bufs.iter().skip(1).filter(|_| !tagged) {
        for f in buffer_fields::<W>(r, &bytes, other) {
            out.violate(
                Violation::new(
                    format!("emit-depends-on-buffer:{}:{}", ty, f),
                    format!(
                        "{} {} {}: bytes emitted into a zero-filled buffer {} differ in field '{}' from those emitted into a pre-filled buffer {}",
                        ty,
                        clip(repr.clone()),
                        ctx,
                        hex_short(&bytes),
                        f,
                        hex_short(other)
                    ),
                )
                .with(detail(&ty, &repr, &ctx, &bytes).set("other_bytes", Json::hex(&other[..other.len().min(2048)]))),
            );
        }
    }
    // pass 2: parse what was emitted
    out.evals += 1;
    let kind = if reparse { "reparse" } else { "roundtrip" };
    let parsed = catch(|| {
        W::with_parse(s, &bytes, &mut |p| match p {
            Err(()) => out.violate(
                Violation::new(
                    format!("{}-parse-error:{}", kind, tyv),
                    format!("{} {} {}: parse rejects the {} bytes emit produced: {}", ty, clip(repr.clone()), ctx, n, hex_short(&bytes)),
                )
                .with(detail(&ty, &repr, &ctx, &bytes)),
            ),
            Ok(p) => {
                if !W::eq(p, r) {
                    let got = W::dbg(p);
                    let mut fields = W::diff(r, p);
                    if fields.len() > 1 {
                        // a shifted payload is the consequence of a mis-encoded header field
                        fields.retain(|f| f != "payload");
                    }
                    for f in fields {
                        out.violate(
                            Violation::new(
                                format!("{}:{}:{}", kind, ty, f),
                                format!(
                                    "{} {}: emitted {} {} ({} bytes {}) parses back as {} (field '{}' differs)",
                                    ty,
                                    ctx,
                                    if reparse { "value obtained by parsing a mutant" } else { "value" },
                                    clip(repr.clone()),
                                    n,
                                    hex_short(&bytes),
                                    clip(got.clone()),
                                    f
                                ),
                            )
                            .with(detail(&ty, &repr, &ctx, &bytes).set("parsed", Json::s(clip(got.clone())))),
                        );
                    }
                }
            }
        })
    });
    if let Err(p) = parsed {
        panic_violation(out, format!("parse-panic:{}:{}", ty, p.signature()), "parse() of emitted bytes", &p, &ty, &repr, &ctx);
    }
    if !reparse {
        for f in W::extra(s, r, &bytes) {
            out.violate(
                Violation::new(
                    format!("roundtrip:{}:{}", ty, f),
                    format!("{} {} {}: emitted bytes {} do not carry field '{}'", ty, clip(repr.clone()), ctx, hex_short(&bytes), f),
                )
                .with(detail(&ty, &repr, &ctx, &bytes)),
            );
        }
    }
    Some(bytes)
}

fn one_value<W: Wire>(out: &mut CaseOut, s: &Store, r: &W::Repr<'_>, rng: &mut Rng, sample: bool) {
    out.count("values", 1);
    for c in W::classes(s, r) {
        out.class(c);
    }
    let Some(bytes) = emit_and_roundtrip::<W>(out, s, r, rng, false) else {
        return;
    };
    if sample {
        out.sample = Some(
            Json::obj()
                .set("type", Json::s(W::NAME))
                .set("repr", Json::s(clip(W::dbg(r))))
                .set("context", Json::s(W::ctx(s)))
                .set("bytes", Json::hex(&bytes[..bytes.len().min(256)])),
        );
    }
    // pass 3: whatever a mutant parses to must round-trip as well
    let hot = W::hot(s, r, bytes.len());
    for _ in 0..MUTANTS {
        let mut m = bytes.clone();
        default_mutate(&mut m, hot, rng);
        W::fix(s, &mut m);
        let res = catch(|| {
            W::with_parse(s, &m, &mut |p2| {
                let Ok(r2) = p2 else {
                    out.count("mutants_rejected", 1);
                    return;
                };
                if !W::in_domain(s, r2) {
                    out.count("mutants_out_of_domain", 1);
                    return;
                }
                out.count("mutants_reparsed", 1);
                for c in W::classes(s, r2) {
                    out.class(c);
                }
                emit_and_roundtrip::<W>(out, s, r2, rng, true);
            })
        });
        if let Err(p) = res {
            let ty = W::NAME;
            let what = format!("parse() of mutated bytes {}", hex_short(&m));
            panic_violation(out, format!("parse-panic:{}:{}", ty, p.signature()), &what, &p, ty, "-", &W::ctx(s));
        }
    }
}

pub fn run<W: Wire>(idx: u64, rng: &mut Rng, _ctx: &Ctx) -> CaseOut {
    let mut out = CaseOut::default();
    for v in 0..VALUES_PER_CASE {
        let s = Store::new(rng);
        let r = W::gen(&s, rng);
        one_value::<W>(&mut out, &s, &r, rng, idx == 0 && v == 0);
    }
    out
}

macro_rules! basics {
    () => {
        fn dbg(r: &Self::Repr<'_>) -> String {
            format!("{:?}", r)
        }
        fn eq(a: &Self::Repr<'_>, b: &Self::Repr<'_>) -> bool {
            a == b
        }
    };
}

// ------------------------------------------------------------------ classifiers for evidence

fn plc(n: usize) -> &'static str {
    match n {
        0 => "0",
        1 => "1",
        2..=63 => {
            if n % 2 == 1 {
                "small-odd"
            } else {
                "small-even"
            }
        }
        64..=1023 => "mid",
        1024..=2047 => "large",
        _ => "huge",
    }
}

fn v4k(a: &Ipv4Address) -> &'static str {
    let o = a.octets();
    if o == [0; 4] {
        "unspec"
    } else if o == [255; 4] {
        "bcast"
    } else if o[0] == 127 {
        "loopback"
    } else if (224..240).contains(&o[0]) {
        "mcast"
    } else if o[0] == 169 && o[1] == 254 {
        "link-local"
    } else if o[0] >= 240 {
        "reserved"
    } else {
        "unicast"
    }
}

fn v6k(a: &Ipv6Address) -> &'static str {
    let o = a.octets();
    if o == [0; 16] {
        "unspec"
    } else if o[..15] == [0; 15] && o[15] == 1 {
        "loopback"
    } else if o[0] == 0xff {
        if o[1] == 0x02 && o[2..15] == [0; 13] {
            "mcast8"
        } else if o[2..13] == [0; 11] {
            "mcast32"
        } else if o[2..11] == [0; 9] {
            "mcast48"
        } else {
            "mcast-full"
        }
    } else if o[..8] == [0xfe, 0x80, 0, 0, 0, 0, 0, 0] {
        if o[8..14] == [0, 0, 0, 0xff, 0xfe, 0] {
            "ll-short-iid"
        } else {
            "ll"
        }
    } else if o[0] == 0xfe && o[1] & 0xc0 == 0x80 {
        "ll-wide"
    } else if o[0] & 0xfe == 0xfc {
        "ula"
    } else {
        "global"
    }
}

fn ethk(a: &EthernetAddress) -> &'static str {
    if a.0 == [0; 6] {
        "zero"
    } else if a.is_broadcast() {
        "bcast"
    } else if a.is_multicast() {
        "mcast"
    } else if a.is_local() {
        "local"
    } else {
        "global"
    }
}

fn protok(p: &IpProtocol) -> String {
    match p {
        IpProtocol::Unknown(_) => "unknown".to_string(),
        x => format!("{:?}", x),
    }
}

fn b8(v: u64, max: u64) -> &'static str {
    if v == 0 {
        "0"
    } else if v == max {
        "max"
    } else if v == 1 {
        "1"
    } else {
        "mid"
    }
}

// ------------------------------------------------------------------ Ethernet, ARP, IPv4, IPv6, IpRepr

pub struct Eth;
impl Wire for Eth {
    const NAME: &'static str = "EthernetRepr";
    type Repr<'a> = Framed<'a, EthernetRepr>;
    basics!();
    fn gen<'a>(s: &'a Store, rng: &mut Rng) -> Self::Repr<'a> {
        Framed { repr: g::ethernet(rng), payload: s.payload(rng, 1500) }
    }
    fn classes(_s: &Store, r: &Self::Repr<'_>) -> Vec<String> {
        let t = match r.repr.ethertype {
            EthernetProtocol::Unknown(_) => "unknown".to_string(),
            x => format!("{:?}", x),
        };
        vec![
            format!("ethernet/type={},dst={}", t, ethk(&r.repr.dst_addr)),
            format!("ethernet/src={},pl={}", ethk(&r.repr.src_addr), plc(r.payload.len())),
        ]
    }
    fn len(_s: &Store, r: &Self::Repr<'_>) -> usize {
        r.repr.buffer_len() + r.payload.len()
    }
    fn emit(_s: &Store, r: &Self::Repr<'_>, buf: &mut [u8]) {
        buf[ETHERNET_HEADER_LEN..].copy_from_slice(r.payload);
        r.repr.emit(&mut EthernetFrame::new_unchecked(&mut buf[..]));
    }
    fn with_parse(_s: &Store, buf: &[u8], k: &mut dyn FnMut(Result<&Self::Repr<'_>, ()>)) {
        let Ok(f) = EthernetFrame::new_checked(buf) else { return k(Err(())) };
        match EthernetRepr::parse(&f) {
            Ok(repr) => k(Ok(&Framed { repr, payload: f.payload() })),
            Err(_) => k(Err(())),
        }
    }
    fn field_at(_r: &Self::Repr<'_>, off: usize, _b: &[u8]) -> String {
        match off {
            0..=5 => "dst_addr",
            6..=11 => "src_addr",
            12..=13 => "ethertype",
            _ => "payload",
        }
        .to_string()
    }
    fn hot(_s: &Store, _r: &Self::Repr<'_>, _n: usize) -> usize {
        14
    }
}

pub struct Arp;
impl Wire for Arp {
    const NAME: &'static str = "ArpRepr";
    type Repr<'a> = ArpRepr;
    basics!();
    fn gen<'a>(_s: &'a Store, rng: &mut Rng) -> ArpRepr {
        g::arp(rng)
    }
    fn classes(_s: &Store, r: &ArpRepr) -> Vec<String> {
        let ArpRepr::EthernetIpv4 { operation, source_hardware_addr, source_protocol_addr, target_hardware_addr, target_protocol_addr } = r else {
            return vec!["arp/other".to_string()];
        };
        let op = match operation {
            ArpOperation::Unknown(_) => "unknown".to_string(),
            x => format!("{:?}", x),
        };
        vec![
            format!("arp/op={},sha={}", op, ethk(source_hardware_addr)),
            format!("arp/op={},tha={}", op, ethk(target_hardware_addr)),
            format!("arp/spa={}", v4k(source_protocol_addr)),
            format!("arp/tpa={}", v4k(target_protocol_addr)),
        ]
    }
    fn len(_s: &Store, r: &ArpRepr) -> usize {
        r.buffer_len()
    }
    fn emit(_s: &Store, r: &ArpRepr, buf: &mut [u8]) {
        r.emit(&mut ArpPacket::new_unchecked(&mut buf[..]));
    }
    fn with_parse(_s: &Store, buf: &[u8], k: &mut dyn FnMut(Result<&ArpRepr, ()>)) {
        let Ok(p) = ArpPacket::new_checked(buf) else { return k(Err(())) };
        match ArpRepr::parse(&p) {
            Ok(r) => k(Ok(&r)),
            Err(_) => k(Err(())),
        }
    }
    fn field_at(_r: &ArpRepr, off: usize, _b: &[u8]) -> String {
        match off {
            0..=1 => "htype",
            2..=3 => "ptype",
            4 => "hlen",
            5 => "plen",
            6..=7 => "operation",
            8..=13 => "source_hardware_addr",
            14..=17 => "source_protocol_addr",
            18..=23 => "target_hardware_addr",
            _ => "target_protocol_addr",
        }
        .to_string()
    }
}

fn ipv4_field(off: usize) -> &'static str {
    match off {
        0 => "version_ihl",
        1 => "dscp_ecn",
        2..=3 => "total_len",
        4..=5 => "ident",
        6..=7 => "flags_frag_offset",
        8 => "hop_limit",
        9 => "next_header",
        10..=11 => "checksum",
        12..=15 => "src_addr",
        16..=19 => "dst_addr",
        _ => "payload",
    }
}

fn ipv6_field(off: usize) -> &'static str {
    match off {
        0..=3 => "version_tc_flow",
        4..=5 => "payload_len",
        6 => "next_header",
        7 => "hop_limit",
        8..=23 => "src_addr",
        24..=39 => "dst_addr",
        _ => "payload",
    }
}

fn ip_classes(tag: &str, src: &str, dst: &str, nh: &IpProtocol, hop: u8, pl: usize) -> Vec<String> {
    vec![
        format!("{}/src={}", tag, src),
        format!("{}/dst={}", tag, dst),
        format!("{}/nh={}", tag, protok(nh)),
        format!("{}/hop={}", tag, b8(hop as u64, 255)),
        format!("{}/pl={}{}", tag, plc(pl), if pl >= 65000 { "-limit" } else { "" }),
    ]
}

fn parse_v4<'a>(buf: &'a [u8]) -> Result<Framed<'a, Ipv4Repr>, ()> {
    let p = Ipv4Packet::new_checked(buf).map_err(|_| ())?;
    let repr = Ipv4Repr::parse(&p, &caps()).map_err(|_| ())?;
    Ok(Framed { repr, payload: p.payload() })
}

fn parse_v6<'a>(buf: &'a [u8]) -> Result<Framed<'a, Ipv6Repr>, ()> {
    let p = Ipv6Packet::new_checked(buf).map_err(|_| ())?;
    let repr = Ipv6Repr::parse(&p).map_err(|_| ())?;
    Ok(Framed { repr, payload: p.payload() })
}

fn fix_v4(buf: &mut [u8]) {
    // fill_checksum() trusts the header length field: only on a coherent packet
    if Ipv4Packet::new_checked(&buf[..]).is_ok() {
        Ipv4Packet::new_unchecked(&mut buf[..]).fill_checksum();
    }
}

pub struct V4;
impl Wire for V4 {
    const NAME: &'static str = "Ipv4Repr";
    type Repr<'a> = Framed<'a, Ipv4Repr>;
    basics!();
    fn gen<'a>(s: &'a Store, rng: &mut Rng) -> Self::Repr<'a> {
        let payload = s.payload(rng, 65535 - IPV4_HEADER_LEN);
        Framed { repr: g::ipv4_repr(rng, payload.len()), payload }
    }
    fn classes(_s: &Store, r: &Self::Repr<'_>) -> Vec<String> {
        ip_classes("ipv4", v4k(&r.repr.src_addr), v4k(&r.repr.dst_addr), &r.repr.next_header, r.repr.hop_limit, r.repr.payload_len)
    }
    fn len(_s: &Store, r: &Self::Repr<'_>) -> usize {
        r.repr.buffer_len() + r.payload.len()
    }
    fn emit(_s: &Store, r: &Self::Repr<'_>, buf: &mut [u8]) {
        buf[IPV4_HEADER_LEN..].copy_from_slice(r.payload);
        r.repr.emit(&mut Ipv4Packet::new_unchecked(&mut buf[..]), &caps());
    }
    fn with_parse(_s: &Store, buf: &[u8], k: &mut dyn FnMut(Result<&Self::Repr<'_>, ()>)) {
        match parse_v4(buf) {
            Ok(r) => k(Ok(&r)),
            Err(()) => k(Err(())),
        }
    }
    fn fix(_s: &Store, buf: &mut [u8]) {
        fix_v4(buf)
    }
    fn field_at(_r: &Self::Repr<'_>, off: usize, _b: &[u8]) -> String {
        ipv4_field(off).to_string()
    }
    fn derived_field() -> Option<&'static str> {
        Some("checksum")
    }
    fn hot(_s: &Store, _r: &Self::Repr<'_>, _n: usize) -> usize {
        20
    }
}

pub struct V6;
impl Wire for V6 {
    const NAME: &'static str = "Ipv6Repr";
    type Repr<'a> = Framed<'a, Ipv6Repr>;
    basics!();
    fn gen<'a>(s: &'a Store, rng: &mut Rng) -> Self::Repr<'a> {
        let payload = s.payload(rng, 65535);
        Framed { repr: g::ipv6_repr(rng, payload.len()), payload }
    }
    fn classes(_s: &Store, r: &Self::Repr<'_>) -> Vec<String> {
        ip_classes("ipv6", v6k(&r.repr.src_addr), v6k(&r.repr.dst_addr), &r.repr.next_header, r.repr.hop_limit, r.repr.payload_len)
    }
    fn len(_s: &Store, r: &Self::Repr<'_>) -> usize {
        r.repr.buffer_len() + r.payload.len()
    }
    fn emit(_s: &Store, r: &Self::Repr<'_>, buf: &mut [u8]) {
        buf[IPV6_HEADER_LEN..].copy_from_slice(r.payload);
        r.repr.emit(&mut Ipv6Packet::new_unchecked(&mut buf[..]));
    }
    fn with_parse(_s: &Store, buf: &[u8], k: &mut dyn FnMut(Result<&Self::Repr<'_>, ()>)) {
        match parse_v6(buf) {
            Ok(r) => k(Ok(&r)),
            Err(()) => k(Err(())),
        }
    }
    fn field_at(_r: &Self::Repr<'_>, off: usize, _b: &[u8]) -> String {
        ipv6_field(off).to_string()
    }
    fn hot(_s: &Store, _r: &Self::Repr<'_>, _n: usize) -> usize {
        40
    }
}

pub struct Ip;
impl Wire for Ip {
    const NAME: &'static str = "IpRepr";
    type Repr<'a> = Framed<'a, IpRepr>;
    basics!();
    fn gen<'a>(s: &'a Store, rng: &mut Rng) -> Self::Repr<'a> {
        if rng.bool() {
            let payload = s.payload(rng, 65535 - IPV4_HEADER_LEN);
            Framed { repr: IpRepr::Ipv4(g::ipv4_repr(rng, payload.len())), payload }
        } else {
            let payload = s.payload(rng, 65535);
            if rng.bool() {
                Framed { repr: IpRepr::Ipv6(g::ipv6_repr(rng, payload.len())), payload }
            } else {
                // through the constructor that picks the version from the addresses
                Framed {
                    repr: IpRepr::new(IpAddress::Ipv6(g::ipv6(rng).0), IpAddress::Ipv6(g::ipv6(rng).0), g::ip_protocol(rng), payload.len(), g::u8b(rng)),
                    payload,
                }
            }
        }
    }
    fn classes(_s: &Store, r: &Self::Repr<'_>) -> Vec<String> {
        match &r.repr {
            IpRepr::Ipv4(x) => ip_classes("ip/v4", v4k(&x.src_addr), v4k(&x.dst_addr), &x.next_header, x.hop_limit, x.payload_len),
            IpRepr::Ipv6(x) => ip_classes("ip/v6", v6k(&x.src_addr), v6k(&x.dst_addr), &x.next_header, x.hop_limit, x.payload_len),
        }
    }
    fn len(_s: &Store, r: &Self::Repr<'_>) -> usize {
        // IpRepr::buffer_len() is header + payload_len
        r.repr.buffer_len()
    }
    fn emit(_s: &Store, r: &Self::Repr<'_>, buf: &mut [u8]) {
        let h = r.repr.header_len();
        buf[h..].copy_from_slice(r.payload);
        r.repr.emit(&mut buf[..], &caps());
    }
    fn with_parse(_s: &Store, buf: &[u8], k: &mut dyn FnMut(Result<&Self::Repr<'_>, ()>)) {
        if buf.is_empty() {
            return k(Err(()));
        }
        let r = match IpVersion::of_packet(buf) {
            Ok(IpVersion::Ipv4) => parse_v4(buf).map(|f| Framed { repr: IpRepr::Ipv4(f.repr), payload: f.payload }),
            Ok(IpVersion::Ipv6) => parse_v6(buf).map(|f| Framed { repr: IpRepr::Ipv6(f.repr), payload: f.payload }),
            Err(_) => Err(()),
        };
        match r {
            Ok(r) => k(Ok(&r)),
            Err(()) => k(Err(())),
        }
    }
    fn fix(_s: &Store, buf: &mut [u8]) {
        if !buf.is_empty() && buf[0] >> 4 == 4 {
            fix_v4(buf)
        }
    }
    fn field_at(r: &Self::Repr<'_>, off: usize, _b: &[u8]) -> String {
        match r.repr {
            IpRepr::Ipv4(_) => ipv4_field(off),
            IpRepr::Ipv6(_) => ipv6_field(off),
        }
        .to_string()
    }
    fn derived_field() -> Option<&'static str> {
        Some("checksum")
    }
    fn hot(_s: &Store, r: &Self::Repr<'_>, _n: usize) -> usize {
        r.repr.header_len()
    }
}

// ------------------------------------------------------------------ IPv6 extension headers and options

pub struct V6Ext;
impl Wire for V6Ext {
    const NAME: &'static str = "Ipv6ExtHeaderRepr";
    type Repr<'a> = Ipv6ExtHeaderRepr<'a>;
    basics!();
    fn gen<'a>(s: &'a Store, rng: &mut Rng) -> Self::Repr<'a> {
        g::ipv6_ext_header(s, rng)
    }
    fn classes(_s: &Store, r: &Self::Repr<'_>) -> Vec<String> {
        vec![format!("ipv6ext/nh={},len={}", protok(&r.next_header), b8(r.length as u64, 255))]
    }
    fn len(_s: &Store, r: &Self::Repr<'_>) -> usize {
        r.header_len() + r.data.len()
    }
    fn emit(_s: &Store, r: &Self::Repr<'_>, buf: &mut [u8]) {
        buf[2..].copy_from_slice(r.data);
        r.emit(&mut Ipv6ExtHeader::new_unchecked(&mut buf[..]));
    }
    fn with_parse(_s: &Store, buf: &[u8], k: &mut dyn FnMut(Result<&Self::Repr<'_>, ()>)) {
        let Ok(h) = Ipv6ExtHeader::new_checked(buf) else { return k(Err(())) };
        match Ipv6ExtHeaderRepr::parse(&h) {
            Ok(r) => k(Ok(&r)),
            Err(_) => k(Err(())),
        }
    }
    fn field_at(_r: &Self::Repr<'_>, off: usize, _b: &[u8]) -> String {
        match off {
            0 => "next_header",
            1 => "length",
            _ => "data",
        }
        .to_string()
    }
    fn hot(_s: &Store, _r: &Self::Repr<'_>, _n: usize) -> usize {
        4
    }
}

fn v6opt_class(o: &Ipv6OptionRepr<'_>) -> String {
    match o {
        Ipv6OptionRepr::Pad1 => "pad1".to_string(),
        Ipv6OptionRepr::PadN(n) => format!("padn({})", b8(*n as u64, 255)),
        Ipv6OptionRepr::RouterAlert(Ipv6OptionRouterAlert::Unknown(_)) => "ralert(unknown)".to_string(),
        Ipv6OptionRepr::RouterAlert(x) => format!("ralert({:?})", x),
        Ipv6OptionRepr::Unknown { type_, length, .. } => {
            let raw: u8 = (*type_).into();
            format!("unknown(act={},len={})", raw >> 6, b8(*length as u64, 255))
        }
        _ => "other".to_string(),
    }
}

fn v6opt_in_domain(o: &Ipv6OptionRepr<'_>) -> bool {
    match o {
        Ipv6OptionRepr::Unknown { type_, length, data } => {
            let raw: u8 = (*type_).into();
            !matches!(raw, 0 | 1 | 5) && data.len() == *length as usize
        }
        _ => true,
    }
}

pub struct V6Opt;
impl Wire for V6Opt {
    fn variant(r: &Self::Repr<'_>) -> String {
        dbg_head(&format!("{:?}", r), 1)
    }
    const NAME: &'static str = "Ipv6OptionRepr";
    type Repr<'a> = Ipv6OptionRepr<'a>;
    basics!();
    fn gen<'a>(s: &'a Store, rng: &mut Rng) -> Self::Repr<'a> {
        g::ipv6_option(s, rng)
    }
    fn classes(_s: &Store, r: &Self::Repr<'_>) -> Vec<String> {
        vec![format!("ipv6opt/{}", v6opt_class(r))]
    }
    fn len(_s: &Store, r: &Self::Repr<'_>) -> usize {
        r.buffer_len()
    }
    fn emit(_s: &Store, r: &Self::Repr<'_>, buf: &mut [u8]) {
        r.emit(&mut Ipv6Option::new_unchecked(&mut buf[..]));
    }
    fn with_parse(_s: &Store, buf: &[u8], k: &mut dyn FnMut(Result<&Self::Repr<'_>, ()>)) {
        let Ok(o) = Ipv6Option::new_checked(buf) else { return k(Err(())) };
        match Ipv6OptionRepr::parse(&o) {
            Ok(r) => k(Ok(&r)),
            Err(_) => k(Err(())),
        }
    }
    fn field_at(_r: &Self::Repr<'_>, off: usize, _b: &[u8]) -> String {
        match off {
            0 => "type",
            1 => "length",
            _ => "data",
        }
        .to_string()
    }
    fn hot(_s: &Store, _r: &Self::Repr<'_>, _n: usize) -> usize {
        4
    }
}

pub struct V6Hbh;
impl Wire for V6Hbh {
    const NAME: &'static str = "Ipv6HopByHopRepr";
    type Repr<'a> = Ipv6HopByHopRepr<'a>;
    basics!();
    fn gen<'a>(s: &'a Store, rng: &mut Rng) -> Self::Repr<'a> {
        let mut r = g::ipv6_hbh(s, rng);
        if r.options.is_empty() {
            // an empty options area is rejected by Header::check_len
            let _ = r.options.push(g::ipv6_option(s, rng));
        }
        r
    }
    fn classes(_s: &Store, r: &Self::Repr<'_>) -> Vec<String> {
        let mut v = vec![format!("hbh/n={}", r.options.len())];
        for (i, o) in r.options.iter().enumerate() {
            v.push(format!("hbh/{}@{}", v6opt_class(o), if i == 0 { "first" } else { "later" }));
        }
        v
    }
    fn len(_s: &Store, r: &Self::Repr<'_>) -> usize {
        r.buffer_len()
    }
    fn emit(_s: &Store, r: &Self::Repr<'_>, buf: &mut [u8]) {
        r.emit(&mut Ipv6HopByHopHeader::new_unchecked(&mut buf[..]));
    }
    fn with_parse(_s: &Store, buf: &[u8], k: &mut dyn FnMut(Result<&Self::Repr<'_>, ()>)) {
        let Ok(h) = Ipv6HopByHopHeader::new_checked(buf) else { return k(Err(())) };
        let r = Ipv6HopByHopRepr::parse(&h);
        match &r {
            Ok(r) => k(Ok(r)),
            Err(_) => k(Err(())),
        }
    }
    fn field_at(_r: &Self::Repr<'_>, _off: usize, _b: &[u8]) -> String {
        "options".to_string()
    }
}

pub struct V6Frag;
impl Wire for V6Frag {
    const NAME: &'static str = "Ipv6FragmentRepr";
    type Repr<'a> = Ipv6FragmentRepr;
    basics!();
    fn gen<'a>(_s: &'a Store, rng: &mut Rng) -> Ipv6FragmentRepr {
        g::ipv6_fragment(rng)
    }
    fn classes(_s: &Store, r: &Ipv6FragmentRepr) -> Vec<String> {
        vec![format!("ipv6frag/off={},more={},ident={}", b8(r.frag_offset as u64, 0x1fff), r.more_frags, b8(r.ident as u64, u32::MAX as u64))]
    }
    fn len(_s: &Store, r: &Ipv6FragmentRepr) -> usize {
        r.buffer_len()
    }
    fn emit(_s: &Store, r: &Ipv6FragmentRepr, buf: &mut [u8]) {
        r.emit(&mut Ipv6FragmentHeader::new_unchecked(&mut buf[..]));
    }
    fn with_parse(_s: &Store, buf: &[u8], k: &mut dyn FnMut(Result<&Ipv6FragmentRepr, ()>)) {
        let Ok(h) = Ipv6FragmentHeader::new_checked(buf) else { return k(Err(())) };
        match Ipv6FragmentRepr::parse(&h) {
            Ok(r) => k(Ok(&r)),
            Err(_) => k(Err(())),
        }
    }
    fn field_at(_r: &Ipv6FragmentRepr, off: usize, _b: &[u8]) -> String {
        match off {
            0..=1 => "frag_offset_res_m",
            _ => "ident",
        }
        .to_string()
    }
}

pub struct V6Route;
impl Wire for V6Route {
    fn variant(r: &Self::Repr<'_>) -> String {
        dbg_head(&format!("{:?}", r), 1)
    }
    const NAME: &'static str = "Ipv6RoutingRepr";
    type Repr<'a> = Ipv6RoutingRepr<'a>;
    basics!();
    fn gen<'a>(s: &'a Store, rng: &mut Rng) -> Self::Repr<'a> {
        g::ipv6_routing(s, rng)
    }
    fn classes(_s: &Store, r: &Self::Repr<'_>) -> Vec<String> {
        match r {
            Ipv6RoutingRepr::Type2 { segments_left, home_address } => {
                vec![format!("ipv6route/type2,seg={},home={}", b8(*segments_left as u64, 255), v6k(home_address))]
            }
            Ipv6RoutingRepr::Rpl { segments_left, cmpr_i, cmpr_e, pad, addresses } => vec![
                format!("ipv6route/rpl,seg={},addr={}", b8(*segments_left as u64, 255), plc(addresses.len())),
                format!("ipv6route/rpl,cmpr_i={},cmpr_e={}", b8(*cmpr_i as u64, 15), b8(*cmpr_e as u64, 15)),
                format!("ipv6route/rpl,pad={}", b8(*pad as u64, 15)),
            ],
            _ => vec!["ipv6route/other".to_string()],
        }
    }
    fn len(_s: &Store, r: &Self::Repr<'_>) -> usize {
        r.buffer_len()
    }
    fn emit(_s: &Store, r: &Self::Repr<'_>, buf: &mut [u8]) {
        r.emit(&mut Ipv6RoutingHeader::new_unchecked(&mut buf[..]));
    }
    fn with_parse(_s: &Store, buf: &[u8], k: &mut dyn FnMut(Result<&Self::Repr<'_>, ()>)) {
        let Ok(h) = Ipv6RoutingHeader::new_checked(buf) else { return k(Err(())) };
        let r = Ipv6RoutingRepr::parse(&h);
        match &r {
            Ok(r) => k(Ok(r)),
            Err(_) => k(Err(())),
        }
    }
    fn field_at(r: &Self::Repr<'_>, off: usize, _b: &[u8]) -> String {
        match (r, off) {
            (_, 0) => "routing_type",
            (_, 1) => "segments_left",
            (Ipv6RoutingRepr::Rpl { .. }, 2) => "cmpr",
            (Ipv6RoutingRepr::Rpl { .. }, 3) => "pad_reserved",
            (_, 2..=5) => "reserved",
            (Ipv6RoutingRepr::Rpl { .. }, _) => "addresses",
            _ => "home_address",
        }
        .to_string()
    }
    fn hot(_s: &Store, _r: &Self::Repr<'_>, _n: usize) -> usize {
        8
    }
}


// ------------------------------------------------------------------ ICMPv4, IGMP

pub struct Icmp4;
impl Wire for Icmp4 {
    fn variant(r: &Self::Repr<'_>) -> String {
        dbg_head(&format!("{:?}", r), 1)
    }
    const NAME: &'static str = "Icmpv4Repr";
    type Repr<'a> = Icmpv4Repr<'a>;
    basics!();
    fn gen<'a>(s: &'a Store, rng: &mut Rng) -> Self::Repr<'a> {
        // 1 value in 24: candidate sub-domain (quoted header longer than the quoted data)
        let loose = rng.chance(1, 24);
        g::icmpv4(s, rng, loose)
    }
    fn classes(_s: &Store, r: &Self::Repr<'_>) -> Vec<String> {
        match r {
            Icmpv4Repr::EchoRequest { data, .. } => vec![format!("icmpv4/echo-request,pl={}", plc(data.len()))],
            Icmpv4Repr::EchoReply { data, .. } => vec![format!("icmpv4/echo-reply,pl={}", plc(data.len()))],
            Icmpv4Repr::DstUnreachable { reason, header, data } => {
                let reason = match reason {
                    Icmpv4DstUnreachable::Unknown(_) => "unknown".to_string(),
                    x => format!("{:?}", x),
                };
                vec![
                    format!("icmpv4/dst-unreachable,reason={}", reason),
                    format!("icmpv4/dst-unreachable,quote={},exact={}", plc(data.len()), header.payload_len == data.len()),
                ]
            }
            Icmpv4Repr::TimeExceeded { reason, header, data } => {
                let reason = match reason {
                    Icmpv4TimeExceeded::Unknown(_) => "unknown".to_string(),
                    x => format!("{:?}", x),
                };
                vec![
                    format!("icmpv4/time-exceeded,reason={}", reason),
                    format!("icmpv4/time-exceeded,quote={},exact={}", plc(data.len()), header.payload_len == data.len()),
                ]
            }
            _ => vec!["icmpv4/other".to_string()],
        }
    }
    fn sig_type(_s: &Store, r: &Self::Repr<'_>) -> String {
        match r {
            Icmpv4Repr::DstUnreachable { header, data, .. } | Icmpv4Repr::TimeExceeded { header, data, .. } if header.payload_len > data.len() => {
                "Icmpv4Repr/quoted-len>data".to_string()
            }
            _ => Self::NAME.to_string(),
        }
    }
    fn len(_s: &Store, r: &Self::Repr<'_>) -> usize {
        r.buffer_len()
    }
    fn emit(_s: &Store, r: &Self::Repr<'_>, buf: &mut [u8]) {
        r.emit(&mut Icmpv4Packet::new_unchecked(&mut buf[..]), &caps());
    }
    fn with_parse(_s: &Store, buf: &[u8], k: &mut dyn FnMut(Result<&Self::Repr<'_>, ()>)) {
        let Ok(p) = Icmpv4Packet::new_checked(buf) else { return k(Err(())) };
        match Icmpv4Repr::parse(&p, &caps()) {
            Ok(r) => k(Ok(&r)),
            Err(_) => k(Err(())),
        }
    }
    fn fix(_s: &Store, buf: &mut [u8]) {
        if buf.len() >= 8 {
            Icmpv4Packet::new_unchecked(&mut buf[..]).fill_checksum();
        }
    }
    fn field_at(r: &Self::Repr<'_>, off: usize, _b: &[u8]) -> String {
        let echo = matches!(r, Icmpv4Repr::EchoRequest { .. } | Icmpv4Repr::EchoReply { .. });
        match off {
            0 => "msg_type",
            1 => "msg_code",
            2..=3 => "checksum",
            4..=5 if echo => "ident",
            6..=7 if echo => "seq_no",
            4..=7 => "unused",
            8..=27 if !echo => "header",
            _ => "data",
        }
        .to_string()
    }
    fn derived_field() -> Option<&'static str> {
        Some("checksum")
    }
    fn hot(_s: &Store, r: &Self::Repr<'_>, _n: usize) -> usize {
        match r {
            Icmpv4Repr::EchoRequest { .. } | Icmpv4Repr::EchoReply { .. } => 8,
            _ => 28,
        }
    }
}

pub struct Igmp;
impl Wire for Igmp {
    fn variant(r: &Self::Repr<'_>) -> String {
        dbg_head(&format!("{:?}", r), 1)
    }
    const NAME: &'static str = "IgmpRepr";
    type Repr<'a> = IgmpRepr;
    basics!();
    fn gen<'a>(_s: &'a Store, rng: &mut Rng) -> IgmpRepr {
        g::igmp(rng).0
    }
    fn classes(_s: &Store, r: &IgmpRepr) -> Vec<String> {
        match r {
            IgmpRepr::MembershipQuery { max_resp_time, group_addr, version } => {
                let ds = max_resp_time.total_millis() / 100;
                let t = match ds {
                    0 => "0",
                    1..=127 => "linear",
                    128..=31743 => "float",
                    _ => "float-max",
                };
                vec![format!("igmp/query,{:?},time={},group={}", version, t, v4k(group_addr))]
            }
            IgmpRepr::MembershipReport { group_addr, version } => vec![format!("igmp/report,{:?},group={}", version, v4k(group_addr))],
            IgmpRepr::LeaveGroup { group_addr } => vec![format!("igmp/leave,group={}", v4k(group_addr))],
        }
    }
    fn len(_s: &Store, r: &IgmpRepr) -> usize {
        r.buffer_len()
    }
    fn emit(_s: &Store, r: &IgmpRepr, buf: &mut [u8]) {
        r.emit(&mut IgmpPacket::new_unchecked(&mut buf[..]));
    }
    fn with_parse(_s: &Store, buf: &[u8], k: &mut dyn FnMut(Result<&IgmpRepr, ()>)) {
        let Ok(p) = IgmpPacket::new_checked(buf) else { return k(Err(())) };
        match IgmpRepr::parse(&p) {
            Ok(r) => k(Ok(&r)),
            Err(_) => k(Err(())),
        }
    }
    fn fix(_s: &Store, buf: &mut [u8]) {
        if buf.len() >= 8 {
            IgmpPacket::new_unchecked(&mut buf[..]).fill_checksum();
        }
    }
    fn field_at(_r: &IgmpRepr, off: usize, _b: &[u8]) -> String {
        match off {
            0 => "msg_type",
            1 => "max_resp_code",
            2..=3 => "checksum",
            _ => "group_addr",
        }
        .to_string()
    }
    fn derived_field() -> Option<&'static str> {
        Some("checksum")
    }
}

// ------------------------------------------------------------------ ICMPv6, NDISC, MLD

fn lladdr_k(a: &Option<RawHardwareAddress>) -> &'static str {
    match a {
        None => "none",
        Some(x) if x.len() == 6 => "eth",
        Some(x) if x.len() == 8 => "eui64",
        Some(_) => "odd-len",
    }
}

fn ndisc_classes(r: &NdiscRepr<'_>) -> Vec<String> {
    match r {
        NdiscRepr::RouterSolicit { lladdr } => vec![format!("ndisc/router-solicit,ll={}", lladdr_k(lladdr))],
        NdiscRepr::RouterAdvert { flags, lladdr, mtu, prefix_info, .. } => vec![
            format!("ndisc/router-advert,ll={},mtu={},prefix={}", lladdr_k(lladdr), mtu.is_some(), prefix_info.is_some()),
            format!("ndisc/router-advert,flags={:02x}", flags.bits()),
        ],
        NdiscRepr::NeighborSolicit { target_addr, lladdr } => vec![format!("ndisc/neighbor-solicit,ll={},target={}", lladdr_k(lladdr), v6k(target_addr))],
        NdiscRepr::NeighborAdvert { flags, lladdr, .. } => vec![format!("ndisc/neighbor-advert,ll={},flags={:02x}", lladdr_k(lladdr), flags.bits())],
        NdiscRepr::Redirect { lladdr, redirected_hdr, .. } => vec![format!(
            "ndisc/redirect,ll={},redirected={}",
            lladdr_k(lladdr),
            match redirected_hdr {
                None => "none".to_string(),
                Some(h) => format!("{}{}", plc(h.data.len()), if h.data.len() % 8 == 0 { "" } else { "+pad" }),
            }
        )],
    }
}

fn lladdr_ok(a: &Option<RawHardwareAddress>) -> bool {
    a.map_or(true, |x| x.len() == 6 || x.len() == 8)
}

fn ndisc_in_domain(r: &NdiscRepr<'_>) -> bool {
    match r {
        NdiscRepr::RouterSolicit { lladdr } | NdiscRepr::NeighborSolicit { lladdr, .. } | NdiscRepr::NeighborAdvert { lladdr, .. } | NdiscRepr::RouterAdvert { lladdr, .. } => lladdr_ok(lladdr),
        NdiscRepr::Redirect { lladdr, redirected_hdr, .. } => lladdr_ok(lladdr) && redirected_hdr.map_or(true, |h| h.header.payload_len == h.data.len()),
    }
}

fn mld_classes(r: &MldRepr<'_>) -> Vec<String> {
    match r {
        MldRepr::Query { mcast_addr, s_flag, qrv, num_srcs, data, .. } => vec![
            format!("mld/query,addr={}", v6k(mcast_addr)),
            format!("mld/query,s={},qrv={}", s_flag, b8(*qrv as u64, 7)),
            format!("mld/query,nsrc={},data={}", b8(*num_srcs as u64, 0xffff), plc(data.len())),
        ],
        MldRepr::Report { nr_mcast_addr_rcrds, data } => vec![format!("mld/report,nr={},data={}", b8(*nr_mcast_addr_rcrds as u64, 0xffff), plc(data.len()))],
        MldRepr::ReportRecordReprs(recs) => {
            let mut v = vec![format!("mld/report-records,n={}", recs.len())];
            for r in recs.iter() {
                v.push(format!("mld/report-records,type={}", mld_rt(&r.record_type)));
            }
            v
        }
    }
}

fn mld_rt(t: &MldRecordType) -> String {
    match t {
        MldRecordType::Unknown(_) => "unknown".to_string(),
        x => format!("{:?}", x),
    }
}

/// `ReportRecordReprs` is emit-only (parse yields `Report`): compare by
/// re-parsing the 20-octet records of the report body.
fn mld_eq(a: &MldRepr<'_>, b: &MldRepr<'_>) -> bool {
    match (a, b) {
        (MldRepr::ReportRecordReprs(recs), MldRepr::Report { nr_mcast_addr_rcrds, data }) | (MldRepr::Report { nr_mcast_addr_rcrds, data }, MldRepr::ReportRecordReprs(recs)) => {
            *nr_mcast_addr_rcrds as usize == recs.len()
                && data.len() == 20 * recs.len()
                && recs.iter().zip(data.chunks(20)).all(|(r, c)| match MldAddressRecord::new_checked(c) {
                    Ok(rec) => MldAddressRecordRepr::parse(&rec).map_or(false, |p| p == *r),
                    Err(_) => false,
                })
        }
        _ => a == b,
    }
}

fn mld_len(r: &MldRepr<'_>) -> usize {
    match r {
        // buffer_len() is the fixed part; the caller adds the records (see Interface::mldv2_report_packet)
        MldRepr::ReportRecordReprs(recs) => r.buffer_len() + recs.iter().map(|x| x.buffer_len()).sum::<usize>(),
        _ => r.buffer_len(),
    }
}

fn mld_in_domain(r: &MldRepr<'_>) -> bool {
    match r {
        MldRepr::Query { qrv, .. } => *qrv < 8,
        _ => true,
    }
}

fn icmpv6_field(msg: u8, off: usize) -> &'static str {
    match (msg, off) {
        (_, 0) => "msg_type",
        (_, 1) => "msg_code",
        (_, 2..=3) => "checksum",
        (1 | 3, 4..=7) => "unused",
        (2, 4..=7) => "mtu",
        (4, 4..=7) => "pointer",
        (128 | 129, 4..=5) => "ident",
        (128 | 129, 6..=7) => "seq_no",
        (1..=4, 8..=47) => "header",
        (1..=4 | 128 | 129, _) => "data",
        (133, 4..=7) | (135..=137, 4..=7) => "reserved",
        (134, 4) => "hop_limit",
        (134, 5) => "flags",
        (134, 6..=7) => "router_lifetime",
        (134, 8..=11) => "reachable_time",
        (134, 12..=15) => "retrans_time",
        (135..=137, 8..=23) => "target_addr",
        (137, 24..=39) => "dest_addr",
        (133..=137, _) => "options",
        (130, 4..=5) => "max_resp_code",
        (130, 6..=7) | (143, 4..=5) => "reserved",
        (130, 8..=23) => "mcast_addr",
        (130, 24) => "s_qrv",
        (130, 25) => "qqic",
        (130, 26..=27) => "num_srcs",
        (143, 6..=7) => "nr_mcast_addr_rcrds",
        _ => "data",
    }
}

pub struct Icmp6;
impl Wire for Icmp6 {
    /// The parser accepts error messages with any amount of quoted data (for
    /// instance a long Redirect whose type byte was mutated), emit() cuts the
    /// quote to the minimum MTU by design: such values are outside the domain.
    fn in_domain(_s: &Store, r: &Self::Repr<'_>) -> bool {
        match r {
            Icmpv6Repr::DstUnreachable { data, .. } | Icmpv6Repr::PktTooBig { data, .. } | Icmpv6Repr::TimeExceeded { data, .. } | Icmpv6Repr::ParamProblem { data, .. } => data.len() <= 1192,
            _ => true,
        }
    }
    fn variant(r: &Self::Repr<'_>) -> String {
        dbg_head(&format!("{:?}", r), 2)
    }
    const NAME: &'static str = "Icmpv6Repr";
    type Repr<'a> = Icmpv6Repr<'a>;
    fn gen<'a>(s: &'a Store, rng: &mut Rng) -> Self::Repr<'a> {
        g::icmpv6(s, rng)
    }
    fn dbg(r: &Self::Repr<'_>) -> String {
        format!("{:?}", r)
    }
    fn eq(a: &Self::Repr<'_>, b: &Self::Repr<'_>) -> bool {
        match (a, b) {
            (Icmpv6Repr::Mld(x), Icmpv6Repr::Mld(y)) => mld_eq(x, y),
            _ => a == b,
        }
    }
    fn diff(a: &Self::Repr<'_>, b: &Self::Repr<'_>) -> Vec<String> {
        match (a, b) {
            (Icmpv6Repr::Mld(MldRepr::ReportRecordReprs(_)), Icmpv6Repr::Mld(MldRepr::Report { .. })) => vec!["records".to_string()],
            _ => debug_diff(&Self::dbg(a), &Self::dbg(b)),
        }
    }
    fn classes(_s: &Store, r: &Self::Repr<'_>) -> Vec<String> {
        let err = |name: &str, code: String, h: &Ipv6Repr, d: &[u8]| {
            vec![format!("icmpv6/{},code={}", name, code), format!("icmpv6/{},quote={},exact={}", name, plc(d.len()), h.payload_len == d.len())]
        };
        let unk = |s: String| if s.starts_with("Unknown") { "unknown".to_string() } else { s };
        match r {
            Icmpv6Repr::DstUnreachable { reason, header, data } => err("dst-unreachable", unk(format!("{:?}", reason)), header, data),
            Icmpv6Repr::PktTooBig { header, data, .. } => err("pkt-too-big", "0".to_string(), header, data),
            Icmpv6Repr::TimeExceeded { reason, header, data } => err("time-exceeded", unk(format!("{:?}", reason)), header, data),
            Icmpv6Repr::ParamProblem { reason, header, data, .. } => err("param-problem", unk(format!("{:?}", reason)), header, data),
            Icmpv6Repr::EchoRequest { data, .. } => vec![format!("icmpv6/echo-request,pl={}", plc(data.len()))],
            Icmpv6Repr::EchoReply { data, .. } => vec![format!("icmpv6/echo-reply,pl={}", plc(data.len()))],
            Icmpv6Repr::Ndisc(n) => ndisc_classes(n).into_iter().map(|c| format!("icmpv6/{}", c)).collect(),
            Icmpv6Repr::Mld(m) => mld_classes(m).into_iter().map(|c| format!("icmpv6/{}", c)).collect(),
            _ => vec!["icmpv6/other".to_string()],
        }
    }
    fn len(_s: &Store, r: &Self::Repr<'_>) -> usize {
        match r {
            Icmpv6Repr::Mld(m) => mld_len(m),
            _ => r.buffer_len(),
        }
    }
    fn emit(s: &Store, r: &Self::Repr<'_>, buf: &mut [u8]) {
        r.emit(&s.v6_src, &s.v6_dst, &mut Icmpv6Packet::new_unchecked(&mut buf[..]), &caps());
    }
    fn with_parse(s: &Store, buf: &[u8], k: &mut dyn FnMut(Result<&Self::Repr<'_>, ()>)) {
        let Ok(p) = Icmpv6Packet::new_checked(buf) else { return k(Err(())) };
        match Icmpv6Repr::parse(&s.v6_src, &s.v6_dst, &p, &caps()) {
            Ok(r) => k(Ok(&r)),
            Err(_) => k(Err(())),
        }
    }
    fn fix(s: &Store, buf: &mut [u8]) {
        if buf.len() >= 4 {
            Icmpv6Packet::new_unchecked(&mut buf[..]).fill_checksum(&s.v6_src, &s.v6_dst);
        }
    }
    fn field_at(_r: &Self::Repr<'_>, off: usize, b: &[u8]) -> String {
        icmpv6_field(b[0], off).to_string()
    }
    fn derived_field() -> Option<&'static str> {
        Some("checksum")
    }
    fn hot(_s: &Store, r: &Self::Repr<'_>, n: usize) -> usize {
        match r {
            Icmpv6Repr::EchoRequest { .. } | Icmpv6Repr::EchoReply { .. } => 8,
            Icmpv6Repr::Ndisc(_) => n.min(96),
            _ => n.min(48),
        }
    }
    fn ctx(s: &Store) -> String {
        format!("[src={} dst={}]", s.v6_src, s.v6_dst)
    }
}

pub struct Ndisc;
impl Wire for Ndisc {
    fn variant(r: &Self::Repr<'_>) -> String {
        dbg_head(&format!("{:?}", r), 1)
    }
    const NAME: &'static str = "NdiscRepr";
    type Repr<'a> = NdiscRepr<'a>;
    basics!();
    fn gen<'a>(s: &'a Store, rng: &mut Rng) -> Self::Repr<'a> {
        g::ndisc(s, rng)
    }
    fn classes(_s: &Store, r: &Self::Repr<'_>) -> Vec<String> {
        ndisc_classes(r)
    }
    fn len(_s: &Store, r: &Self::Repr<'_>) -> usize {
        r.buffer_len()
    }
    fn emit(_s: &Store, r: &Self::Repr<'_>, buf: &mut [u8]) {
        // the checksum field belongs to the caller (Icmpv6Repr::emit fills it)
        buf[2..4].fill(0);
        r.emit(&mut Icmpv6Packet::new_unchecked(&mut buf[..]));
    }
    fn with_parse(_s: &Store, buf: &[u8], k: &mut dyn FnMut(Result<&Self::Repr<'_>, ()>)) {
        let Ok(p) = Icmpv6Packet::new_checked(buf) else { return k(Err(())) };
        match NdiscRepr::parse(&p) {
            Ok(r) => k(Ok(&r)),
            Err(_) => k(Err(())),
        }
    }
    fn field_at(_r: &Self::Repr<'_>, off: usize, b: &[u8]) -> String {
        // the NDISC emitter does not own code and checksum
        icmpv6_field(b[0], off).to_string()
    }
    fn hot(_s: &Store, _r: &Self::Repr<'_>, n: usize) -> usize {
        n.min(96)
    }
}

pub struct Mld;
impl Wire for Mld {
    fn variant(r: &Self::Repr<'_>) -> String {
        dbg_head(&format!("{:?}", r), 1)
    }
    const NAME: &'static str = "MldRepr";
    type Repr<'a> = MldRepr<'a>;
    fn gen<'a>(s: &'a Store, rng: &mut Rng) -> Self::Repr<'a> {
        g::mld(s, rng)
    }
    fn dbg(r: &Self::Repr<'_>) -> String {
        format!("{:?}", r)
    }
    fn eq(a: &Self::Repr<'_>, b: &Self::Repr<'_>) -> bool {
        mld_eq(a, b)
    }
    fn diff(a: &Self::Repr<'_>, b: &Self::Repr<'_>) -> Vec<String> {
        match (a, b) {
            (MldRepr::ReportRecordReprs(_), MldRepr::Report { .. }) => vec!["records".to_string()],
            _ => debug_diff(&Self::dbg(a), &Self::dbg(b)),
        }
    }
    fn classes(_s: &Store, r: &Self::Repr<'_>) -> Vec<String> {
        mld_classes(r)
    }
    fn len(_s: &Store, r: &Self::Repr<'_>) -> usize {
        mld_len(r)
    }
    fn emit(_s: &Store, r: &Self::Repr<'_>, buf: &mut [u8]) {
        // the checksum field belongs to the caller (Icmpv6Repr::emit fills it)
        buf[2..4].fill(0);
        r.emit(&mut Icmpv6Packet::new_unchecked(&mut buf[..]));
    }
    fn with_parse(_s: &Store, buf: &[u8], k: &mut dyn FnMut(Result<&Self::Repr<'_>, ()>)) {
        let Ok(p) = Icmpv6Packet::new_checked(buf) else { return k(Err(())) };
        match MldRepr::parse(&p) {
            Ok(r) => k(Ok(&r)),
            Err(_) => k(Err(())),
        }
    }
    fn field_at(_r: &Self::Repr<'_>, off: usize, b: &[u8]) -> String {
        icmpv6_field(b[0], off).to_string()
    }
    fn hot(_s: &Store, _r: &Self::Repr<'_>, n: usize) -> usize {
        n.min(48)
    }
}

pub struct MldRecord;
impl Wire for MldRecord {
    const NAME: &'static str = "MldAddressRecordRepr";
    type Repr<'a> = MldAddressRecordRepr<'a>;
    basics!();
    fn gen<'a>(s: &'a Store, rng: &mut Rng) -> Self::Repr<'a> {
        g::mld_record(s, rng)
    }
    fn classes(_s: &Store, r: &Self::Repr<'_>) -> Vec<String> {
        vec![
            format!("mld-record/type={},addr={}", mld_rt(&r.record_type), v6k(&r.mcast_addr)),
            format!("mld-record/aux={},nsrc={},pl={}", b8(r.aux_data_len as u64, 255), b8(r.num_srcs as u64, 0xffff), plc(r.payload.len())),
        ]
    }
    fn in_domain(_s: &Store, r: &Self::Repr<'_>) -> bool {
        r.mcast_addr.octets()[0] == 0xff
    }
    fn len(_s: &Store, r: &Self::Repr<'_>) -> usize {
        r.buffer_len() + r.payload.len()
    }
    fn emit(_s: &Store, r: &Self::Repr<'_>, buf: &mut [u8]) {
        buf[20..].copy_from_slice(r.payload);
        r.emit(&mut MldAddressRecord::new_unchecked(&mut buf[..]));
    }
    fn with_parse(_s: &Store, buf: &[u8], k: &mut dyn FnMut(Result<&Self::Repr<'_>, ()>)) {
        let Ok(p) = MldAddressRecord::new_checked(buf) else { return k(Err(())) };
        match MldAddressRecordRepr::parse(&p) {
            Ok(r) => k(Ok(&r)),
            Err(_) => k(Err(())),
        }
    }
    fn field_at(_r: &Self::Repr<'_>, off: usize, _b: &[u8]) -> String {
        match off {
            0 => "record_type",
            1 => "aux_data_len",
            2..=3 => "num_srcs",
            4..=19 => "mcast_addr",
            _ => "payload",
        }
        .to_string()
    }
    fn hot(_s: &Store, _r: &Self::Repr<'_>, _n: usize) -> usize {
        20
    }
}

pub struct NdOpt;
impl Wire for NdOpt {
    fn variant(r: &Self::Repr<'_>) -> String {
        dbg_head(&format!("{:?}", r), 1)
    }
    const NAME: &'static str = "NdiscOptionRepr";
    type Repr<'a> = NdiscOptionRepr<'a>;
    basics!();
    fn gen<'a>(s: &'a Store, rng: &mut Rng) -> Self::Repr<'a> {
        // 1 value in 32: candidate sub-domain (redirected header whose length field differs from the quoted data)
        let loose = rng.chance(1, 32);
        g::ndisc_option(s, rng, loose)
    }
    fn classes(_s: &Store, r: &Self::Repr<'_>) -> Vec<String> {
        vec![match r {
            NdiscOptionRepr::SourceLinkLayerAddr(a) => format!("ndisc-option/source-ll,{}", lladdr_k(&Some(*a))),
            NdiscOptionRepr::TargetLinkLayerAddr(a) => format!("ndisc-option/target-ll,{}", lladdr_k(&Some(*a))),
            NdiscOptionRepr::PrefixInformation(p) => format!("ndisc-option/prefix,len={},flags={:02x}", b8(p.prefix_len as u64, 128), p.flags.bits()),
            NdiscOptionRepr::RedirectedHeader(h) => format!(
                "ndisc-option/redirected,data={}{},exact={}",
                plc(h.data.len()),
                if h.data.len() % 8 == 0 { "" } else { "+pad" },
                h.header.payload_len == h.data.len()
            ),
            NdiscOptionRepr::Mtu(m) => format!("ndisc-option/mtu={}", b8(*m as u64, u32::MAX as u64)),
            NdiscOptionRepr::Unknown { length, .. } => format!("ndisc-option/unknown,len={}", b8(*length as u64, 255)),
        }]
    }
    fn sig_type(_s: &Store, r: &Self::Repr<'_>) -> String {
        match r {
            NdiscOptionRepr::RedirectedHeader(h) if h.header.payload_len != h.data.len() => "NdiscOptionRepr/redirected-len!=data".to_string(),
            _ => Self::NAME.to_string(),
        }
    }
    fn len(_s: &Store, r: &Self::Repr<'_>) -> usize {
        r.buffer_len()
    }
    fn emit(_s: &Store, r: &Self::Repr<'_>, buf: &mut [u8]) {
        r.emit(&mut NdiscOption::new_unchecked(&mut buf[..]));
    }
    fn with_parse(_s: &Store, buf: &[u8], k: &mut dyn FnMut(Result<&Self::Repr<'_>, ()>)) {
        let Ok(o) = NdiscOption::new_checked(buf) else { return k(Err(())) };
        match NdiscOptionRepr::parse(&o) {
            Ok(r) => k(Ok(&r)),
            Err(_) => k(Err(())),
        }
    }
    fn field_at(r: &Self::Repr<'_>, off: usize, _b: &[u8]) -> String {
        match (r, off) {
            (_, 0) => "type",
            (_, 1) => "length",
            (NdiscOptionRepr::SourceLinkLayerAddr(a) | NdiscOptionRepr::TargetLinkLayerAddr(a), o) => {
                if o < 2 + a.len() {
                    "lladdr"
                } else {
                    "lladdr-padding"
                }
            }
            (NdiscOptionRepr::PrefixInformation(_), 2) => "prefix_len",
            (NdiscOptionRepr::PrefixInformation(_), 3) => "flags",
            (NdiscOptionRepr::PrefixInformation(_), 4..=7) => "valid_lifetime",
            (NdiscOptionRepr::PrefixInformation(_), 8..=11) => "preferred_lifetime",
            (NdiscOptionRepr::PrefixInformation(_), 12..=15) => "reserved",
            (NdiscOptionRepr::PrefixInformation(_), _) => "prefix",
            (NdiscOptionRepr::RedirectedHeader(_), 2..=7) => "reserved",
            (NdiscOptionRepr::RedirectedHeader(_), 8..=47) => "header",
            (NdiscOptionRepr::RedirectedHeader(h), o) => {
                if o < 48 + h.data.len() {
                    "data"
                } else {
                    "data-padding"
                }
            }
            (NdiscOptionRepr::Mtu(_), 2..=3) => "reserved",
            (NdiscOptionRepr::Mtu(_), _) => "mtu",
            _ => "data",
        }
        .to_string()
    }
    fn hot(_s: &Store, _r: &Self::Repr<'_>, n: usize) -> usize {
        n.min(48)
    }
}


// ------------------------------------------------------------------ UDP, TCP

fn addr_ctx(s: &Store) -> String {
    format!("[src={} dst={}]", s.ip_src(), s.ip_dst())
}

pub struct Udp;
impl Wire for Udp {
    const NAME: &'static str = "UdpRepr";
    type Repr<'a> = Framed<'a, UdpRepr>;
    basics!();
    fn gen<'a>(s: &'a Store, rng: &mut Rng) -> Self::Repr<'a> {
        Framed { repr: g::udp(rng), payload: s.payload(rng, 65535 - UDP_HEADER_LEN) }
    }
    fn classes(s: &Store, r: &Self::Repr<'_>) -> Vec<String> {
        vec![
            format!("udp/{},sport={},dport={}", if s.use_v6 { "v6" } else { "v4" }, b8(r.repr.src_port as u64, 0xffff), b8(r.repr.dst_port as u64, 0xffff)),
            format!("udp/{},pl={}", if s.use_v6 { "v6" } else { "v4" }, plc(r.payload.len())),
        ]
    }
    fn len(_s: &Store, r: &Self::Repr<'_>) -> usize {
        r.repr.header_len() + r.payload.len()
    }
    fn emit(s: &Store, r: &Self::Repr<'_>, buf: &mut [u8]) {
        r.repr.emit(&mut UdpPacket::new_unchecked(&mut buf[..]), &s.ip_src(), &s.ip_dst(), r.payload.len(), |b| b.copy_from_slice(r.payload), &caps());
    }
    fn with_parse(s: &Store, buf: &[u8], k: &mut dyn FnMut(Result<&Self::Repr<'_>, ()>)) {
        let Ok(p) = UdpPacket::new_checked(buf) else { return k(Err(())) };
        match UdpRepr::parse(&p, &s.ip_src(), &s.ip_dst(), &caps()) {
            Ok(repr) => k(Ok(&Framed { repr, payload: p.payload() })),
            Err(_) => k(Err(())),
        }
    }
    fn fix(s: &Store, buf: &mut [u8]) {
        // fill_checksum() trusts the length field
        if UdpPacket::new_checked(&buf[..]).is_ok() {
            UdpPacket::new_unchecked(&mut buf[..]).fill_checksum(&s.ip_src(), &s.ip_dst());
        }
        // one mutant in eight (chosen by the content, a case stays a pure
        // function of its PRNG stream) becomes a datagram without checksum
        if buf.len() >= 8 && buf.iter().fold(0u8, |a, b| a ^ b) & 7 == 0 {
            buf[6] = 0;
            buf[7] = 0;
        }
    }
    fn field_at(_r: &Self::Repr<'_>, off: usize, _b: &[u8]) -> String {
        match off {
            0..=1 => "src_port",
            2..=3 => "dst_port",
            4..=5 => "length",
            6..=7 => "checksum",
            _ => "payload",
        }
        .to_string()
    }
    fn derived_field() -> Option<&'static str> {
        Some("checksum")
    }
    fn hot(_s: &Store, _r: &Self::Repr<'_>, _n: usize) -> usize {
        8
    }
    fn ctx(s: &Store) -> String {
        addr_ctx(s)
    }
}

fn tcp_in_domain(r: &TcpRepr<'_>) -> bool {
    let n = r.sack_ranges.iter().filter(|x| x.is_some()).count();
    let dense = r.sack_ranges.iter().take(n).all(|x| x.is_some());
    // ports and window scale are not checked here: the parser guarantees them,
    // and if it stops doing so the round trip of the parsed value must show it
    dense && (n == 0 || (r.ack_number.is_some() && !r.sack_permitted)) && r.header_len() <= 60
}

pub struct Tcp;
impl Wire for Tcp {
    const NAME: &'static str = "TcpRepr";
    type Repr<'a> = TcpRepr<'a>;
    basics!();
    fn gen<'a>(s: &'a Store, rng: &mut Rng) -> Self::Repr<'a> {
        g::tcp(s, rng)
    }
    fn classes(s: &Store, r: &Self::Repr<'_>) -> Vec<String> {
        let mut opts = String::new();
        if r.max_seg_size.is_some() {
            opts.push_str("+mss");
        }
        if r.window_scale.is_some() {
            opts.push_str("+ws");
        }
        if r.sack_permitted {
            opts.push_str("+sackperm");
        }
        let n = r.sack_ranges.iter().filter(|x| x.is_some()).count();
        if n > 0 {
            opts.push_str(&format!("+sack{}", n));
        }
        if r.timestamp.is_some() {
            opts.push_str("+ts");
        }
        if opts.is_empty() {
            opts.push_str("none");
        }
        vec![
            format!("tcp/{:?},ack={},{}", r.control, r.ack_number.is_some(), if s.use_v6 { "v6" } else { "v4" }),
            format!("tcp/opts={}", opts),
            format!("tcp/{:?},pl={}", r.control, plc(r.payload.len())),
            format!("tcp/hdr={}", r.header_len()),
        ]
    }
    fn in_domain(_s: &Store, r: &Self::Repr<'_>) -> bool {
        tcp_in_domain(r)
    }
    fn len(_s: &Store, r: &Self::Repr<'_>) -> usize {
        r.buffer_len()
    }
    fn emit(s: &Store, r: &Self::Repr<'_>, buf: &mut [u8]) {
        r.emit(&mut TcpPacket::new_unchecked(&mut buf[..]), &s.ip_src(), &s.ip_dst(), &caps());
    }
    fn with_parse(s: &Store, buf: &[u8], k: &mut dyn FnMut(Result<&Self::Repr<'_>, ()>)) {
        let Ok(p) = TcpPacket::new_checked(buf) else { return k(Err(())) };
        match TcpRepr::parse(&p, &s.ip_src(), &s.ip_dst(), &caps()) {
            Ok(r) => k(Ok(&r)),
            Err(_) => k(Err(())),
        }
    }
    fn fix(s: &Store, buf: &mut [u8]) {
        if buf.len() >= TCP_HEADER_LEN {
            TcpPacket::new_unchecked(&mut buf[..]).fill_checksum(&s.ip_src(), &s.ip_dst());
        }
    }
    fn field_at(_r: &Self::Repr<'_>, off: usize, b: &[u8]) -> String {
        let hl = ((b[12] >> 4) as usize) * 4;
        match off {
            0..=1 => "src_port",
            2..=3 => "dst_port",
            4..=7 => "seq_number",
            8..=11 => "ack_number",
            12..=13 => "data_offset_flags",
            14..=15 => "window_len",
            16..=17 => "checksum",
            18..=19 => "urgent",
            o if o < hl => "options",
            _ => "payload",
        }
        .to_string()
    }
    fn derived_field() -> Option<&'static str> {
        Some("checksum")
    }
    fn hot(_s: &Store, r: &Self::Repr<'_>, _n: usize) -> usize {
        r.header_len()
    }
    fn ctx(s: &Store) -> String {
        addr_ctx(s)
    }
}

/// A single TCP option; `rest` is what `TcpOption::parse` leaves unconsumed.
#[derive(Debug, PartialEq)]
pub struct TcpOpt<'a> {
    pub option: TcpOption<'a>,
    pub rest: usize,
}

pub struct TcpOptW;
impl Wire for TcpOptW {
    fn variant(r: &Self::Repr<'_>) -> String {
        dbg_head(&format!("{:?}", r.option), 1)
    }
    const NAME: &'static str = "TcpOption";
    type Repr<'a> = TcpOpt<'a>;
    basics!();
    fn gen<'a>(s: &'a Store, rng: &mut Rng) -> Self::Repr<'a> {
        TcpOpt { option: g::tcp_option(s, rng), rest: 0 }
    }
    fn classes(_s: &Store, r: &Self::Repr<'_>) -> Vec<String> {
        vec![match &r.option {
            TcpOption::EndOfList => "tcp-option/eol".to_string(),
            TcpOption::NoOperation => "tcp-option/nop".to_string(),
            TcpOption::MaxSegmentSize(v) => format!("tcp-option/mss={}", b8(*v as u64, 0xffff)),
            TcpOption::WindowScale(v) => format!("tcp-option/ws={}", b8(*v as u64, 255)),
            TcpOption::SackPermitted => "tcp-option/sack-permitted".to_string(),
            TcpOption::SackRange(x) => format!("tcp-option/sack{}", x.iter().filter(|y| y.is_some()).count()),
            TcpOption::TimeStamp { .. } => "tcp-option/timestamp".to_string(),
            TcpOption::Unknown { kind, data } => format!("tcp-option/unknown,kind={},len={}", if *kind == 8 { "8" } else { "other" }, plc(data.len())),
        }]
    }
    fn len(_s: &Store, r: &Self::Repr<'_>) -> usize {
        r.option.buffer_len() + r.rest
    }
    fn emit(_s: &Store, r: &Self::Repr<'_>, buf: &mut [u8]) {
        let n = r.option.buffer_len();
        // bytes after the option (only for values obtained by parsing) are the caller's
        buf[n..].fill(0);
        r.option.emit(&mut buf[..n]);
    }
    fn with_parse(_s: &Store, buf: &[u8], k: &mut dyn FnMut(Result<&Self::Repr<'_>, ()>)) {
        match TcpOption::parse(buf) {
            Ok((rest, option)) => k(Ok(&TcpOpt { option, rest: rest.len() })),
            Err(_) => k(Err(())),
        }
    }
    fn field_at(_r: &Self::Repr<'_>, off: usize, _b: &[u8]) -> String {
        match off {
            0 => "kind",
            1 => "length",
            _ => "data",
        }
        .to_string()
    }
    fn hot(_s: &Store, _r: &Self::Repr<'_>, n: usize) -> usize {
        n.min(4)
    }
}

// ------------------------------------------------------------------ DHCP, DNS

/// Option kinds DhcpRepr::parse interprets.
const DHCP_KNOWN: [u8; 12] = [1, 3, 6, 50, 51, 53, 54, 55, 57, 58, 59, 61];

fn dhcp_core<'a>(r: &DhcpRepr<'a>) -> DhcpRepr<'a> {
    let mut c = r.clone();
    c.additional_options = &[];
    c
}

pub struct Dhcp;
impl Wire for Dhcp {
    const NAME: &'static str = "DhcpRepr";
    type Repr<'a> = DhcpRepr<'a>;
    fn gen<'a>(s: &'a Store, rng: &mut Rng) -> Self::Repr<'a> {
        g::dhcp(s, rng)
    }
    fn dbg(r: &Self::Repr<'_>) -> String {
        format!("{:?}", r)
    }
    /// `additional_options` is write-only by documented design ("when returned
    /// from parse, this field will be None"): see `extra`.
    fn eq(a: &Self::Repr<'_>, b: &Self::Repr<'_>) -> bool {
        dhcp_core(a) == dhcp_core(b)
    }
    fn diff(a: &Self::Repr<'_>, b: &Self::Repr<'_>) -> Vec<String> {
        debug_diff(&format!("{:?}", dhcp_core(a)), &format!("{:?}", dhcp_core(b)))
    }
    fn extra(_s: &Store, r: &Self::Repr<'_>, bytes: &[u8]) -> Vec<String> {
        let p = DhcpPacket::new_unchecked(bytes);
        let got: Vec<DhcpOption<'_>> = p.options().filter(|o| !DHCP_KNOWN.contains(&o.kind)).collect();
        if got.as_slice() == r.additional_options { Vec::new() } else { vec!["additional_options".to_string()] }
    }
    fn classes(_s: &Store, r: &Self::Repr<'_>) -> Vec<String> {
        let mt = match r.message_type {
            DhcpMessageType::Unknown(_) => "unknown".to_string(),
            x => format!("{:?}", x),
        };
        let mut ips = String::new();
        for (n, v) in [("router", r.router.is_some()), ("mask", r.subnet_mask.is_some()), ("req", r.requested_ip.is_some()), ("sid", r.server_identifier.is_some())] {
            if v {
                ips.push('+');
                ips.push_str(n);
            }
        }
        let mut misc = String::new();
        for (n, v) in [("cid", r.client_identifier.is_some()), ("max", r.max_size.is_some()), ("lease", r.lease_duration.is_some()), ("prl", r.parameter_request_list.is_some())] {
            if v {
                misc.push('+');
                misc.push_str(n);
            }
        }
        vec![
            format!("dhcp/type={},bcast={}", mt, r.broadcast),
            format!("dhcp/dns={},extra={}", r.dns_servers.as_ref().map_or("none".to_string(), |d| d.len().to_string()), r.additional_options.len()),
            format!("dhcp/ip-opts={}", if ips.is_empty() { "none" } else { &ips }),
            format!("dhcp/misc-opts={}", if misc.is_empty() { "none" } else { &misc }),
            format!("dhcp/renew={},rebind={}", r.renew_duration.is_some(), r.rebind_duration.is_some()),
        ]
    }
    fn len(_s: &Store, r: &Self::Repr<'_>) -> usize {
        r.buffer_len()
    }
    fn emit(_s: &Store, r: &Self::Repr<'_>, buf: &mut [u8]) {
        if r.emit(&mut DhcpPacket::new_unchecked(&mut buf[..])).is_err() {
            panic!("DhcpRepr::emit returned Err on a buffer of buffer_len() octets");
        }
    }
    fn with_parse(_s: &Store, buf: &[u8], k: &mut dyn FnMut(Result<&Self::Repr<'_>, ()>)) {
        let Ok(p) = DhcpPacket::new_checked(buf) else { return k(Err(())) };
        let r = DhcpRepr::parse(&p);
        match &r {
            Ok(r) => k(Ok(r)),
            Err(_) => k(Err(())),
        }
    }
    fn field_at(_r: &Self::Repr<'_>, off: usize, _b: &[u8]) -> String {
        match off {
            0 => "op",
            1 => "htype",
            2 => "hlen",
            3 => "hops",
            4..=7 => "xid",
            8..=9 => "secs",
            10..=11 => "flags",
            12..=15 => "ciaddr",
            16..=19 => "yiaddr",
            20..=23 => "siaddr",
            24..=27 => "giaddr",
            28..=43 => "chaddr",
            44..=107 => "sname",
            108..=235 => "file",
            236..=239 => "magic",
            _ => "options",
        }
        .to_string()
    }
    fn hot(_s: &Store, _r: &Self::Repr<'_>, n: usize) -> usize {
        n
    }
}

/// A question section entry; `rest` is what `DnsQuestion::parse` leaves.
#[derive(Debug, PartialEq)]
pub struct DnsQ<'a> {
    pub question: DnsQuestion<'a>,
    pub rest: usize,
}

fn name_class(name: &[u8]) -> String {
    let mut labels = 0;
    let mut i = 0;
    let mut longest = 0;
    let mut end = "root";
    while i < name.len() {
        let l = name[i];
        if l == 0 {
            break;
        }
        if l & 0xc0 == 0xc0 {
            end = "pointer";
            break;
        }
        labels += 1;
        longest = longest.max(l as usize);
        i += 1 + l as usize;
    }
    format!("labels={},longest={},end={},total={}", labels.min(4), if longest == 63 { "63" } else if longest == 0 { "0" } else { "<63" }, end, if name.len() >= 250 { "max" } else { "ok" })
}

fn qtype_class(t: &DnsQueryType) -> String {
    match t {
        DnsQueryType::Unknown(_) => "unknown".to_string(),
        x => format!("{:?}", x),
    }
}

pub struct DnsQW;
impl Wire for DnsQW {
    const NAME: &'static str = "DnsQuestion";
    type Repr<'a> = DnsQ<'a>;
    basics!();
    fn gen<'a>(s: &'a Store, rng: &mut Rng) -> Self::Repr<'a> {
        DnsQ { question: g::dns_question(s, rng), rest: 0 }
    }
    fn classes(_s: &Store, r: &Self::Repr<'_>) -> Vec<String> {
        vec![format!("dns-question/type={}", qtype_class(&r.question.type_)), format!("dns-question/{}", name_class(r.question.name))]
    }
    fn len(_s: &Store, r: &Self::Repr<'_>) -> usize {
        r.question.buffer_len() + r.rest
    }
    fn emit(_s: &Store, r: &Self::Repr<'_>, buf: &mut [u8]) {
        let n = r.question.buffer_len();
        buf[n..].fill(0);
        r.question.emit(&mut buf[..n]);
    }
    fn with_parse(_s: &Store, buf: &[u8], k: &mut dyn FnMut(Result<&Self::Repr<'_>, ()>)) {
        match DnsQuestion::parse(buf) {
            Ok((rest, question)) => k(Ok(&DnsQ { question, rest: rest.len() })),
            Err(_) => k(Err(())),
        }
    }
    fn field_at(r: &Self::Repr<'_>, off: usize, _b: &[u8]) -> String {
        let n = r.question.name.len();
        if off < n {
            "name"
        } else if off < n + 2 {
            "type"
        } else if off < n + 4 {
            "class"
        } else {
            "rest"
        }
        .to_string()
    }
    fn hot(_s: &Store, _r: &Self::Repr<'_>, n: usize) -> usize {
        n
    }
}

/// A DNS query as `DnsRepr` describes it, plus the section counts that emit()
/// sets (QDCOUNT = 1, no records).
#[derive(Debug, PartialEq)]
pub struct DnsMsg<'a> {
    pub repr: DnsRepr<'a>,
    pub counts: [u16; 4],
}

pub struct Dns;
impl Wire for Dns {
    const NAME: &'static str = "DnsRepr";
    type Repr<'a> = DnsMsg<'a>;
    basics!();
    fn gen<'a>(s: &'a Store, rng: &mut Rng) -> Self::Repr<'a> {
        DnsMsg { repr: g::dns(s, rng), counts: [1, 0, 0, 0] }
    }
    fn classes(_s: &Store, r: &Self::Repr<'_>) -> Vec<String> {
        let op = match r.repr.opcode {
            DnsOpcode::Unknown(x) => format!("unknown{}", if x >= 8 { ">=8" } else { "<8" }),
            x => format!("{:?}", x),
        };
        vec![
            format!("dns/opcode={},flags={}", op, r.repr.flags.bits().count_ones()),
            format!("dns/type={}", qtype_class(&r.repr.question.type_)),
            format!("dns/{}", name_class(r.repr.question.name)),
        ]
    }
    fn in_domain(_s: &Store, r: &Self::Repr<'_>) -> bool {
        r.counts == [1, 0, 0, 0]
    }
    fn len(_s: &Store, r: &Self::Repr<'_>) -> usize {
        r.repr.buffer_len()
    }
    fn emit(_s: &Store, r: &Self::Repr<'_>, buf: &mut [u8]) {
        r.repr.emit(&mut DnsPacket::new_unchecked(&mut buf[..]));
    }
    /// DnsRepr has no parse(): read it back the way socket::dns reads a message.
    fn with_parse(_s: &Store, buf: &[u8], k: &mut dyn FnMut(Result<&Self::Repr<'_>, ()>)) {
        let Ok(p) = DnsPacket::new_checked(buf) else { return k(Err(())) };
        if p.question_count() == 0 {
            return k(Err(()));
        }
        let Ok((_rest, question)) = DnsQuestion::parse(p.payload()) else { return k(Err(())) };
        let m = DnsMsg {
            repr: DnsRepr { transaction_id: p.transaction_id(), opcode: p.opcode(), flags: p.flags(), question },
            counts: [p.question_count(), p.answer_record_count(), p.authority_record_count(), p.additional_record_count()],
        };
        k(Ok(&m))
    }
    fn field_at(r: &Self::Repr<'_>, off: usize, _b: &[u8]) -> String {
        let n = r.repr.question.name.len();
        match off {
            0..=1 => "transaction_id",
            2..=3 => "flags",
            4..=5 => "qdcount",
            6..=7 => "ancount",
            8..=9 => "nscount",
            10..=11 => "arcount",
            o if o < 12 + n => "name",
            _ => "type_class",
        }
        .to_string()
    }
    fn hot(_s: &Store, _r: &Self::Repr<'_>, n: usize) -> usize {
        // identifier and flags; the section counts are fixed by the domain
        n.min(4)
    }
}


// ------------------------------------------------------------------ IEEE 802.15.4

fn ll_size(a: &Option<Ieee802154Address>) -> usize {
    match a {
        Some(Ieee802154Address::Short(_)) => 2,
        Some(Ieee802154Address::Extended(_)) => 8,
        _ => 0,
    }
}

fn ll_k(a: &Option<Ieee802154Address>) -> &'static str {
    match a {
        None => "none",
        Some(Ieee802154Address::Absent) => "absent",
        Some(Ieee802154Address::Short([0xff, 0xff])) => "bcast",
        Some(Ieee802154Address::Short(_)) => "short",
        Some(Ieee802154Address::Extended(_)) => "ext",
    }
}

/// Length of frame control + sequence number + addressing fields as the
/// representation describes them.
fn ieee_addr_end(r: &Ieee802154Repr) -> usize {
    3 + r.dst_pan_id.map_or(0, |_| 2) + ll_size(&r.dst_addr) + r.src_pan_id.map_or(0, |_| 2) + ll_size(&r.src_addr)
}

/// The frame layout `Ieee802154Repr::emit` / `buffer_len` implement:
/// [frame control][sequence number][dst PAN][dst addr][src PAN iff !compression][src addr].
fn ieee_supported(r: &Ieee802154Repr) -> bool {
    let addressed = match r.frame_type {
        Ieee802154FrameType::Beacon | Ieee802154FrameType::Data | Ieee802154FrameType::MacCommand | Ieee802154FrameType::Multipurpose => true,
        Ieee802154FrameType::Acknowledgement => r.frame_version == Ieee802154FrameVersion::Ieee802154,
        _ => false,
    };
    let both = ll_size(&r.dst_addr) > 0 && ll_size(&r.src_addr) > 0;
    let version_ok = match r.frame_version {
        Ieee802154FrameVersion::Ieee802154_2003 | Ieee802154FrameVersion::Ieee802154_2006 => true,
        Ieee802154FrameVersion::Ieee802154 => !(ll_size(&r.dst_addr) == 8 && ll_size(&r.src_addr) == 8),
        _ => false,
    };
    addressed && both && version_ok && r.sequence_number.is_some() && r.dst_pan_id.is_some() && r.src_pan_id.is_some() == !r.pan_id_compression
}

pub struct Ieee;
impl Wire for Ieee {
    const NAME: &'static str = "Ieee802154Repr";
    type Repr<'a> = Framed<'a, Ieee802154Repr>;
    basics!();
    fn gen<'a>(s: &'a Store, rng: &mut Rng) -> Self::Repr<'a> {
        let repr = g::ieee802154(rng);
        let room = 127 - repr.buffer_len();
        // a secured frame starts its payload with the auxiliary security
        // header (at most 14 octets) and ends with a message integrity code
        // (at most 16 octets); check_len() wants both complete
        let min = if repr.security_enabled { 14 + 16 } else { 0 };
        let n = min + g::plen(rng, room - min);
        Framed { repr, payload: s.pool.take(rng, n) }
    }
    fn classes(_s: &Store, r: &Self::Repr<'_>) -> Vec<String> {
        let x = &r.repr;
        let ft = match x.frame_type {
            Ieee802154FrameType::Unknown(_) => "unknown".to_string(),
            t => format!("{:?}", t),
        };
        vec![
            format!("ieee802154/{},{:?},supported-layout={}", ft, x.frame_version, ieee_supported(x)),
            format!("ieee802154/dst={},src={},compr={}", ll_k(&x.dst_addr), ll_k(&x.src_addr), x.pan_id_compression),
            format!("ieee802154/{:?},compr={},dpan={},span={}", x.frame_version, x.pan_id_compression, x.dst_pan_id.is_some(), x.src_pan_id.is_some()),
            format!("ieee802154/sec={},pend={},ack={},seq={}", x.security_enabled, x.frame_pending, x.ack_request, x.sequence_number.is_some()),
        ]
    }
    fn sig_type(_s: &Store, r: &Self::Repr<'_>) -> String {
        if ieee_supported(&r.repr) { Self::NAME.to_string() } else { "Ieee802154Repr/unsupported-layout".to_string() }
    }
    fn len(_s: &Store, r: &Self::Repr<'_>) -> usize {
        r.repr.buffer_len() + r.payload.len()
    }
    fn emit(_s: &Store, r: &Self::Repr<'_>, buf: &mut [u8]) {
        let h = r.repr.buffer_len();
        buf[h..].copy_from_slice(r.payload);
        r.repr.emit(&mut Ieee802154Frame::new_unchecked(&mut buf[..]));
    }
    fn with_parse(_s: &Store, buf: &[u8], k: &mut dyn FnMut(Result<&Self::Repr<'_>, ()>)) {
        let Ok(f) = Ieee802154Frame::new_checked(buf) else { return k(Err(())) };
        match Ieee802154Repr::parse(&f) {
            Ok(repr) => {
                let end = ieee_addr_end(&repr).min(buf.len());
                k(Ok(&Framed { repr, payload: &buf[end..] }))
            }
            Err(_) => k(Err(())),
        }
    }
    fn field_at(r: &Self::Repr<'_>, off: usize, _b: &[u8]) -> String {
        match off {
            0..=1 => "frame_control",
            2 => "sequence_number",
            o if o < r.repr.buffer_len() => "addressing",
            _ => "payload",
        }
        .to_string()
    }
    fn hot(_s: &Store, r: &Self::Repr<'_>, _n: usize) -> usize {
        // mostly the frame control field: it selects the layout
        if r.repr.security_enabled { 3 } else { 2 }
    }
}

// ------------------------------------------------------------------ 6LoWPAN

fn nh_k(n: &SixlowpanNextHeader) -> String {
    match n {
        SixlowpanNextHeader::Compressed => "compressed".to_string(),
        SixlowpanNextHeader::Uncompressed(p) => format!("inline-{}", protok(p)),
    }
}

fn lowpan_ctx(s: &Store) -> String {
    format!("[ll_src={:?} ll_dst={:?} contexts={:02x?},{:02x?}]", s.ll_src, s.ll_dst, s.contexts[0].0, s.contexts[1].0)
}

fn tf_ok(r: &SixlowpanIphcRepr) -> bool {
    matches!((r.ecn, r.dscp, r.flow_label), (Some(_), Some(_), Some(_)) | (Some(_), None, Some(_)) | (Some(_), Some(_), None) | (None, None, None))
}

pub struct Iphc;
impl Wire for Iphc {
    const NAME: &'static str = "SixlowpanIphcRepr";
    type Repr<'a> = Framed<'a, SixlowpanIphcRepr>;
    basics!();
    fn gen<'a>(s: &'a Store, rng: &mut Rng) -> Self::Repr<'a> {
        let n = g::plen(rng, 40);
        Framed { repr: g::iphc(s, rng), payload: s.pool.take(rng, n) }
    }
    fn classes(s: &Store, r: &Self::Repr<'_>) -> Vec<String> {
        let x = &r.repr;
        let elided = |a: &Ipv6Address, ll: &Option<Ieee802154Address>| ll.and_then(g::ll_derived).map_or(false, |d| d == *a);
        let hop = match x.hop_limit {
            1 => "1",
            64 => "64",
            255 => "255",
            _ => "inline",
        };
        let tf = match (x.ecn, x.dscp, x.flow_label) {
            (None, None, None) => "elided",
            (Some(_), Some(_), None) => "ecn+dscp",
            (Some(_), None, Some(_)) => "ecn+flow",
            (Some(_), Some(_), Some(_)) => "all",
            _ => "invalid",
        };
        vec![
            format!("iphc/src={}{}", v6k(&x.src_addr), if elided(&x.src_addr, &s.ll_src) { format!("(=ll {})", ll_k(&s.ll_src)) } else { String::new() }),
            format!("iphc/dst={}{}", v6k(&x.dst_addr), if elided(&x.dst_addr, &s.ll_dst) { format!("(=ll {})", ll_k(&s.ll_dst)) } else { String::new() }),
            format!("iphc/ll_src={},ll_dst={}", ll_k(&s.ll_src), ll_k(&s.ll_dst)),
            format!("iphc/hop={},nh={},tf={}", hop, if x.next_header == SixlowpanNextHeader::Compressed { "compressed" } else { "inline" }, tf),
        ]
    }
    fn sig_type(_s: &Store, r: &Self::Repr<'_>) -> String {
        if r.repr.ecn.is_some() || r.repr.dscp.is_some() || r.repr.flow_label.is_some() {
            "SixlowpanIphcRepr/tf-inline".to_string()
        } else {
            Self::NAME.to_string()
        }
    }
    fn len(_s: &Store, r: &Self::Repr<'_>) -> usize {
        r.repr.buffer_len() + r.payload.len()
    }
    fn emit(_s: &Store, r: &Self::Repr<'_>, buf: &mut [u8]) {
        let h = r.repr.buffer_len();
        buf[h..].copy_from_slice(r.payload);
        r.repr.emit(&mut SixlowpanIphcPacket::new_unchecked(&mut buf[..]));
    }
    fn with_parse(s: &Store, buf: &[u8], k: &mut dyn FnMut(Result<&Self::Repr<'_>, ()>)) {
        let Ok(p) = SixlowpanIphcPacket::new_checked(buf) else { return k(Err(())) };
        match SixlowpanIphcRepr::parse(&p, s.ll_src, s.ll_dst, &s.contexts) {
            Ok(repr) => k(Ok(&Framed { repr, payload: p.payload() })),
            Err(_) => k(Err(())),
        }
    }
    fn field_at(r: &Self::Repr<'_>, off: usize, _b: &[u8]) -> String {
        match off {
            0..=1 => "iphc_base",
            o if o < r.repr.buffer_len() => "inline_fields",
            _ => "payload",
        }
        .to_string()
    }
    fn hot(_s: &Store, r: &Self::Repr<'_>, _n: usize) -> usize {
        r.repr.buffer_len().min(6)
    }
    fn ctx(s: &Store) -> String {
        lowpan_ctx(s)
    }
}

pub struct SixExt;
impl Wire for SixExt {
    const NAME: &'static str = "SixlowpanExtHeaderRepr";
    type Repr<'a> = Framed<'a, SixlowpanExtHeaderRepr>;
    basics!();
    fn gen<'a>(s: &'a Store, rng: &mut Rng) -> Self::Repr<'a> {
        let repr = g::sixlowpan_ext(rng);
        // the header is followed by `length` octets of extension header content
        Framed { repr, payload: s.pool.take(rng, repr.length as usize) }
    }
    fn classes(_s: &Store, r: &Self::Repr<'_>) -> Vec<String> {
        vec![
            format!("sixlowpan-ext/{:?},nh-inline={},len={}", r.repr.ext_header_id, r.repr.next_header != SixlowpanNextHeader::Compressed, b8(r.repr.length as u64, 255)),
            format!("sixlowpan-ext/nh={}", nh_k(&r.repr.next_header)),
        ]
    }
    fn len(_s: &Store, r: &Self::Repr<'_>) -> usize {
        r.repr.buffer_len() + r.payload.len()
    }
    fn emit(_s: &Store, r: &Self::Repr<'_>, buf: &mut [u8]) {
        let h = r.repr.buffer_len();
        buf[h..].copy_from_slice(r.payload);
        r.repr.emit(&mut SixlowpanExtHeaderPacket::new_unchecked(&mut buf[..]));
    }
    fn with_parse(_s: &Store, buf: &[u8], k: &mut dyn FnMut(Result<&Self::Repr<'_>, ()>)) {
        let Ok(p) = SixlowpanExtHeaderPacket::new_checked(buf) else { return k(Err(())) };
        match SixlowpanExtHeaderRepr::parse(&p) {
            Ok(repr) => {
                let h = repr.buffer_len().min(buf.len());
                k(Ok(&Framed { repr, payload: &buf[h..] }))
            }
            Err(_) => k(Err(())),
        }
    }
    fn field_at(r: &Self::Repr<'_>, off: usize, _b: &[u8]) -> String {
        let inline = r.repr.next_header != SixlowpanNextHeader::Compressed;
        match (off, inline) {
            (0, _) => "dispatch_eid_nh",
            (1, true) => "next_header",
            (1, false) | (2, true) => "length",
            _ => "payload",
        }
        .to_string()
    }
    fn hot(_s: &Store, _r: &Self::Repr<'_>, _n: usize) -> usize {
        3
    }
}

fn nhc_ports_size(b0: u8) -> usize {
    match b0 & 0b11 {
        0b00 => 4,
        0b01 | 0b10 => 3,
        _ => 1,
    }
}

pub struct UdpNhc;
impl Wire for UdpNhc {
    fn variant(r: &Self::Repr<'_>) -> String {
        let p4 = |p: u16| (0xf0b0..=0xf0bf).contains(&p);
        let p8 = |p: u16| (0xf000..=0xf0ff).contains(&p);
        // the encoding emit() chooses (RFC 6282 4.3.3, field P)
        match (r.repr.src_port, r.repr.dst_port) {
            (s, d) if p4(s) && p4(d) => "ports=4+4bit",
            (s, _) if p8(s) => "ports=src8bit",
            (_, d) if p8(d) => "ports=dst8bit",
            _ => "ports=inline",
        }
        .to_string()
    }
    const NAME: &'static str = "SixlowpanUdpNhcRepr";
    type Repr<'a> = Framed<'a, SixlowpanUdpNhcRepr>;
    basics!();
    fn gen<'a>(s: &'a Store, rng: &mut Rng) -> Self::Repr<'a> {
        let n = g::plen(rng, 110);
        let mut repr = g::udp_nhc(rng).0;
        let payload = s.pool.take(rng, n);
        // one value in six is steered so that the UDP checksum computes to zero (which must
        // travel as 0xffff and be accepted again): the destination port absorbs the sum
        if rng.chance(1, 6) {
            let partial = checksum::combine(&[
                checksum::pseudo_header_v6(&s.v6_src, &s.v6_dst, IpProtocol::Udp, payload.len() as u32 + 8),
                repr.0.src_port,
                payload.len() as u16 + 8,
                checksum::data(payload),
            ]);
            if !partial != 0 {
                repr.0.dst_port = !partial;
            }
        }
        Framed { repr, payload }
    }
    fn classes(_s: &Store, r: &Self::Repr<'_>) -> Vec<String> {
        let pk = |p: u16| {
            if (0xf0b0..=0xf0bf).contains(&p) {
                "f0bX"
            } else if (0xf000..=0xf0ff).contains(&p) {
                "f0XX"
            } else {
                "other"
            }
        };
        let zero = {
            let sum = checksum::combine(&[
                checksum::pseudo_header_v6(&_s.v6_src, &_s.v6_dst, IpProtocol::Udp, r.payload.len() as u32 + 8),
                r.repr.src_port,
                r.repr.dst_port,
                r.payload.len() as u16 + 8,
                checksum::data(r.payload),
            ]);
            sum == 0xffff
        };
        vec![format!("udp-nhc/src={},dst={},pl={}{}", pk(r.repr.src_port), pk(r.repr.dst_port), plc(r.payload.len()), if zero { ",checksum-computes-to-zero" } else { "" })]
    }
    fn len(_s: &Store, r: &Self::Repr<'_>) -> usize {
        r.repr.header_len() + r.payload.len()
    }
    fn emit(s: &Store, r: &Self::Repr<'_>, buf: &mut [u8]) {
        r.repr.emit(&mut SixlowpanUdpNhcPacket::new_unchecked(&mut buf[..]), &s.v6_src, &s.v6_dst, r.payload.len(), |b| b.copy_from_slice(r.payload), &caps());
    }
    fn with_parse(s: &Store, buf: &[u8], k: &mut dyn FnMut(Result<&Self::Repr<'_>, ()>)) {
        let Ok(p) = SixlowpanUdpNhcPacket::new_checked(buf) else { return k(Err(())) };
        match SixlowpanUdpNhcRepr::parse(&p, &s.v6_src, &s.v6_dst, &caps()) {
            Ok(repr) => k(Ok(&Framed { repr, payload: p.payload() })),
            Err(_) => k(Err(())),
        }
    }
    /// There is no fill_checksum() for the compressed header: recompute the
    /// inline checksum with smoltcp's checksum primitives, over the fields
    /// as the packet accessors decode them.
    fn fix(s: &Store, buf: &mut [u8]) {
        let Ok(p) = SixlowpanUdpNhcPacket::new_checked(&buf[..]) else { return };
        if p.checksum().is_none() {
            return;
        }
        let len = p.payload().len();
        let sum = !checksum::combine(&[
            checksum::pseudo_header_v6(&s.v6_src, &s.v6_dst, IpProtocol::Udp, len as u32 + 8),
            p.src_port(),
            p.dst_port(),
            len as u16 + 8,
            checksum::data(p.payload()),
        ]);
        let at = 1 + nhc_ports_size(buf[0]);
        buf[at..at + 2].copy_from_slice(&sum.to_be_bytes());
    }
    fn field_at(_r: &Self::Repr<'_>, off: usize, b: &[u8]) -> String {
        let ps = nhc_ports_size(b[0]);
        match off {
            0 => "dispatch_c_p",
            o if o < 1 + ps => "ports",
            o if o < 3 + ps => "checksum",
            _ => "payload",
        }
        .to_string()
    }
    fn derived_field() -> Option<&'static str> {
        Some("checksum")
    }
    fn hot(_s: &Store, r: &Self::Repr<'_>, _n: usize) -> usize {
        r.repr.header_len()
    }
    fn ctx(s: &Store) -> String {
        format!("[src={} dst={}]", s.v6_src, s.v6_dst)
    }
}

pub struct SixFrag;
impl Wire for SixFrag {
    fn variant(r: &Self::Repr<'_>) -> String {
        dbg_head(&format!("{:?}", r), 1)
    }
    const NAME: &'static str = "SixlowpanFragRepr";
    type Repr<'a> = SixlowpanFragRepr;
    basics!();
    fn gen<'a>(_s: &'a Store, rng: &mut Rng) -> SixlowpanFragRepr {
        g::sixlowpan_frag(rng)
    }
    fn classes(_s: &Store, r: &SixlowpanFragRepr) -> Vec<String> {
        vec![match r {
            SixlowpanFragRepr::FirstFragment { size, tag } => format!("sixlowpan-frag/first,size={},tag={}", b8(*size as u64, 0x7ff), b8(*tag as u64, 0xffff)),
            SixlowpanFragRepr::Fragment { size, tag, offset } => {
                format!("sixlowpan-frag/next,size={},tag={},offset={}", b8(*size as u64, 0x7ff), b8(*tag as u64, 0xffff), b8(*offset as u64, 255))
            }
        }]
    }
    fn len(_s: &Store, r: &SixlowpanFragRepr) -> usize {
        r.buffer_len()
    }
    fn emit(_s: &Store, r: &SixlowpanFragRepr, buf: &mut [u8]) {
        r.emit(&mut SixlowpanFragPacket::new_unchecked(&mut buf[..]));
    }
    fn with_parse(_s: &Store, buf: &[u8], k: &mut dyn FnMut(Result<&SixlowpanFragRepr, ()>)) {
        let Ok(p) = SixlowpanFragPacket::new_checked(buf) else { return k(Err(())) };
        match SixlowpanFragRepr::parse(&p) {
            Ok(r) => k(Ok(&r)),
            Err(_) => k(Err(())),
        }
    }
    fn field_at(_r: &SixlowpanFragRepr, off: usize, _b: &[u8]) -> String {
        match off {
            0..=1 => "dispatch_size",
            2..=3 => "tag",
            _ => "offset",
        }
        .to_string()
    }
}

pub fn monitor() -> super::Monitor {
    super::Monitor {
        id: "C06",
        rule: RULE,
        assumptions: ASSUMPTIONS,
        floors: &[("evaluations", 300_000), ("distinct", 600), ("values", 100_000), ("mutants_reparsed", 200_000)],
        parts: vec![
            super::Part { name: "ethernet", cases: |c| c.n(600, 60_000), f: run::<Eth> },
            super::Part { name: "arp", cases: |c| c.n(600, 60_000), f: run::<Arp> },
            super::Part { name: "ipv4", cases: |c| c.n(600, 60_000), f: run::<V4> },
            super::Part { name: "ipv6", cases: |c| c.n(600, 60_000), f: run::<V6> },
            super::Part { name: "ip", cases: |c| c.n(600, 60_000), f: run::<Ip> },
            super::Part { name: "ipv6-ext-header", cases: |c| c.n(600, 60_000), f: run::<V6Ext> },
            super::Part { name: "ipv6-option", cases: |c| c.n(600, 60_000), f: run::<V6Opt> },
            super::Part { name: "ipv6-hbh", cases: |c| c.n(600, 60_000), f: run::<V6Hbh> },
            super::Part { name: "ipv6-fragment", cases: |c| c.n(600, 60_000), f: run::<V6Frag> },
            super::Part { name: "ipv6-routing", cases: |c| c.n(600, 60_000), f: run::<V6Route> },
            super::Part { name: "icmpv4", cases: |c| c.n(600, 60_000), f: run::<Icmp4> },
            super::Part { name: "igmp", cases: |c| c.n(600, 60_000), f: run::<Igmp> },
            super::Part { name: "icmpv6", cases: |c| c.n(3000, 300_000), f: run::<Icmp6> },
            super::Part { name: "ndisc", cases: |c| c.n(1000, 100_000), f: run::<Ndisc> },
            super::Part { name: "ndisc-option", cases: |c| c.n(1000, 100_000), f: run::<NdOpt> },
            super::Part { name: "mld", cases: |c| c.n(800, 80_000), f: run::<Mld> },
            super::Part { name: "mld-record", cases: |c| c.n(600, 60_000), f: run::<MldRecord> },
            super::Part { name: "udp", cases: |c| c.n(800, 80_000), f: run::<Udp> },
            super::Part { name: "tcp", cases: |c| c.n(3000, 300_000), f: run::<Tcp> },
            super::Part { name: "tcp-option", cases: |c| c.n(600, 60_000), f: run::<TcpOptW> },
            super::Part { name: "dhcp", cases: |c| c.n(1500, 150_000), f: run::<Dhcp> },
            super::Part { name: "dns-question", cases: |c| c.n(600, 60_000), f: run::<DnsQW> },
            super::Part { name: "dns", cases: |c| c.n(600, 60_000), f: run::<Dns> },
            super::Part { name: "ieee802154", cases: |c| c.n(1500, 150_000), f: run::<Ieee> },
            super::Part { name: "iphc", cases: |c| c.n(2000, 200_000), f: run::<Iphc> },
            super::Part { name: "sixlowpan-ext", cases: |c| c.n(600, 60_000), f: run::<SixExt> },
            super::Part { name: "udp-nhc", cases: |c| c.n(600, 60_000), f: run::<UdpNhc> },
            super::Part { name: "sixlowpan-frag", cases: |c| c.n(600, 60_000), f: run::<SixFrag> },
        ],
        post: None,
    }
}
