//! C09, part "icmp-errors": ICMP sockets bound to a UDP or TCP port (`icmp::Endpoint::Udp/Tcp`)
//! receive the ICMP error messages that quote a datagram sent from that port.  What `recv`
//! reports must be the message that arrived (type, code and the quoted transport header and
//! payload) together with the address of the host that *sent the error* - a router or the
//! destination itself - never the address quoted inside it; errors quoting another port, another
//! protocol or (for an address-bound socket) another local address must not be delivered.
//!
//! The model is a FIFO of the accepted messages; every message carries a unique id in the quoted
//! payload, so a delivery identifies the message it came from.
use crate::indep::x3::{icmp as iicmp, udp as iudp};
use crate::indep::{ip, tcp as itcp, Addr};
use crate::sim::Host;
use crate::util::json::Json;
use crate::util::rng::Rng;
use crate::util::run::{CaseOut, Ctx, Violation};
use smoltcp::phy::Medium;
use smoltcp::socket::icmp;
use smoltcp::wire::{HardwareAddress, IpAddress, IpCidr, IpListenEndpoint, Ipv4Address, Ipv6Address};
use std::collections::VecDeque;

#[derive(Clone, Debug)]
struct Expect {
    id: u32,
    ty: u8,
    code: u8,
    from: Addr,
    quoted_l4: Vec<u8>,
    desc: String,
}

fn hex(b: &[u8]) -> String {
    b.iter().map(|x| format!("{:02x}", x)).collect()
}

pub fn case(idx: u64, rng: &mut Rng, ctx: &Ctx) -> CaseOut {
    let mut out = CaseOut::default();
    let v6 = rng.bool();
    let tcp_bound = rng.chance(1, 3);
    let own = if v6 { Addr::V6(Ipv6Address::new(0xfd00, 0, 0, 0, 0, 0, 0, 1).octets()) } else { Addr::V4([192, 168, 1, 1]) };
    let own2 = if v6 { Addr::V6(Ipv6Address::new(0xfd00, 0, 0, 0, 0, 0, 0, 0x21).octets()) } else { Addr::V4([192, 168, 1, 33]) };
    let cidrs = [IpCidr::new(own.to_smol(), if v6 { 64 } else { 24 }), IpCidr::new(own2.to_smol(), if v6 { 64 } else { 24 })];
    let mut h = Host::new(Medium::Ip, 1500, HardwareAddress::Ip, rng.next_u64(), &cidrs, 0);
    let port: u16 = 4000 + rng.below(1000) as u16;
    let addr_bound = rng.chance(1, 3);
    let slots = *rng.pick(&[1usize, 2, 4, 16]);
    let bytes = *rng.pick(&[256usize, 1024, 8192]);
    let rxb = icmp::PacketBuffer::new(vec![icmp::PacketMetadata::EMPTY; slots], vec![0u8; bytes]);
    let txb = icmp::PacketBuffer::new(vec![icmp::PacketMetadata::EMPTY; 1], vec![0u8; 64]);
    let mut s = icmp::Socket::new(rxb, txb);
    let lep = IpListenEndpoint { addr: if addr_bound { Some(own.to_smol()) } else { None }, port };
    let bound = s.bind(if tcp_bound { icmp::Endpoint::Tcp(lep) } else { icmp::Endpoint::Udp(lep) });
    if bound.is_err() {
        out.harness_errors.push("cannot bind the ICMP socket".into());
        return out;
    }
    let hd = h.sockets.add(s);
    let mut model: VecDeque<Expect> = VecDeque::new();
    // every message injected, with the reasons (if any) why it does not match the socket
    let mut all_sent: Vec<(Vec<u8>, String, String)> = Vec::new();
    let mut now = 1000i64;
    let steps = rng.urange(4, 40);
    let mut next_id: u32 = (idx as u32) << 8;
    for _ in 0..steps {
        if rng.chance(2, 3) {
            // ---- one ICMP error arrives
            next_id += 1;
            let id = next_id;
            // who reports it: the destination of the offending datagram, or some router
            let far = if v6 { Addr::V6(Ipv6Address::new(0x2001, 0xdb8, 0, 0, 0, 0, 0, 0x10 + rng.below(200) as u16).octets()) } else { Addr::V4([10, 9, 8, 1 + rng.below(250) as u8]) };
            let router = match rng.below(3) {
                0 => far,
                1 => {
                    if v6 {
                        Addr::V6(Ipv6Address::new(0xfd00, 0, 0, 0, 0, 0, 0, 0x100 + rng.below(200) as u16).octets())
                    } else {
                        Addr::V4([192, 168, 1, 100 + rng.below(100) as u8])
                    }
                }
                _ => {
                    if v6 {
                        Addr::V6(Ipv6Address::new(0x2001, 0xdb8, 0xffff, 0, 0, 0, 0, 1 + rng.below(200) as u16).octets())
                    } else {
                        Addr::V4([172, 16, rng.below(250) as u8, 1 + rng.below(250) as u8])
                    }
                }
            };
            // the quoted datagram: from us, from the bound port or not, to `far`
            let q_src = if rng.chance(1, 4) { own2 } else { own };
            let right_port = !rng.chance(1, 4);
            let q_sport = if right_port { port } else { port.wrapping_add(1 + rng.below(5) as u16) };
            let q_tcp = if rng.chance(1, 5) { !tcp_bound } else { tcp_bound };
            let dport = 1 + rng.below(60000) as u16;
            let mut pl = id.to_be_bytes().to_vec();
            let extra = rng.urange(0, 12);
            pl.extend_from_slice(&rng.bytes(extra));
            let (q_proto, q_l4) = if q_tcp {
                let seg = itcp::Seg { sport: q_sport, dport, seq: id, ack: 0, flags: itcp::SYN, wnd: 1000, ..Default::default() };
                (ip::PROTO_TCP, itcp::build(&q_src, &far, &seg))
            } else {
                (ip::PROTO_UDP, iudp::build(&q_src, &far, q_sport, dport, &pl, true))
            };
            let quoted = ip::build(&q_src, &far, q_proto, 30, &q_l4);
            let time_exceeded = rng.bool();
            let (ty, code) = if v6 {
                if time_exceeded {
                    (3u8, rng.below(2) as u8)
                } else {
                    (1u8, *rng.pick(&[0u8, 1, 3, 4]))
                }
            } else if time_exceeded {
                (11u8, rng.below(2) as u8)
            } else {
                (3u8, *rng.pick(&[0u8, 1, 2, 3, 9, 10, 13]))
            };
            // addressed to the address the datagram came from
            let (msg, proto) = if v6 { (iicmp::build6(&router, &q_src, ty, code, 0, 0, &quoted), ip::PROTO_ICMPV6) } else { (iicmp::build4(ty, code, 0, 0, &quoted), ip::PROTO_ICMP) };
            let pkt = ip::build(&router, &q_src, proto, 60, &msg);
            let matches = right_port && q_tcp == tcp_bound && (!addr_bound || q_src == own);
            let mut why: Vec<&str> = Vec::new();
            if !right_port {
                why.push("port");
            }
            if q_tcp != tcp_bound {
                why.push("protocol");
            }
            if addr_bound && q_src != own {
                why.push("address");
            }
            let desc = format!(
                "ICMP{} type {} code {} from {} to {} quoting {} {}:{} -> {}:{} id {:#x}",
                if v6 { "v6" } else { "v4" },
                ty,
                code,
                router,
                q_src,
                if q_tcp { "TCP" } else { "UDP" },
                q_src,
                q_sport,
                far,
                dport,
                id
            );
            all_sent.push((q_l4.clone(), why.join("+"), desc.clone()));
            let (had_room, before) = {
                let s = h.sockets.get::<icmp::Socket>(hd);
                // room is certain if the queue is empty; otherwise the outcome is not judged as an obligation
                (model.is_empty(), s.can_recv())
            };
            let _ = before;
            h.dev.rx.push_back(pkt);
            let o = h.poll(now);
            now += 1000;
            out.evals += 1;
            if !o.tx.is_empty() {
                out.violate(Violation::new("icmp-errors:answered", format!("an ICMP error message was answered with {} frame(s): {} ; first answer {}", o.tx.len(), desc, hex(&o.tx[0].data))));
                return out;
            }
            if matches {
                out.count("errors_matching_the_socket", 1);
                if had_room {
                    model.push_back(Expect { id, ty, code, from: router, quoted_l4: q_l4.clone(), desc: desc.clone() });
                    out.count("errors_obligatory", 1);
                } else {
                    // may or may not have been queued: decided by observation at the next recv
                    model.push_back(Expect { id, ty, code, from: router, quoted_l4: q_l4.clone(), desc: format!("(optional) {}", desc) });
                }
            } else {
                out.count("errors_not_for_the_socket", 1);
            }
            out.class(format!("icmp-errors:in:{}:{}:{}:{}", if v6 { "v6" } else { "v4" }, if tcp_bound { "tcp-bound" } else { "udp-bound" }, if time_exceeded { "time-exceeded" } else { "unreachable" }, if matches { "match" } else { "other" }));
            if ctx.verbose {
                println!("[{}] in: {} matches={}", now, desc, matches);
            }
        } else {
            // ---- the application reads
            let mut buf = vec![0u8; 2048];
            let r = h.sockets.get_mut::<icmp::Socket>(hd).recv_slice(&mut buf);
            out.evals += 1;
            match r {
                Ok((n, from)) => {
                    let got = &buf[..n];
                    let from = Addr::from_smol(from);
                    // which message is it?  the id sits in the quoted payload (UDP) or sequence number (TCP)
                    let hdr = if v6 { 40 } else { 20 };
                    let ok_len = n >= 8 + hdr + 8;
                    let tail = if ok_len { &got[8 + hdr..] } else { &got[0..0] };
                    // which owed message is it?  entries in front of it must be optional ones that were not queued
                    let is = |e: &Expect| ok_len && tail.len() >= e.quoted_l4.len() && tail[..e.quoted_l4.len()] == e.quoted_l4[..];
                    let mut matched: Option<Expect> = None;
                    if let Some(k) = model.iter().position(|e| is(e)) {
                        for _ in 0..k {
                            let e = model.pop_front().unwrap();
                            if !e.desc.starts_with("(optional)") {
                                out.violate(Violation::new(
                                    "icmp-errors:lost-or-reordered",
                                    format!("recv returned {} octets from {} [{}] while the next message owed to the socket is: {}", n, from, hex(got), e.desc),
                                ));
                                return out;
                            }
                        }
                        matched = model.pop_front();
                    }
                    let Some(e) = matched else {
                        // which injected message is it, and in what respect does it not match the endpoint?
                        let hit = all_sent.iter().find(|(q, _, _)| ok_len && tail.len() >= q.len() && tail[..q.len()] == q[..]);
                        let (why, which) = match hit {
                            Some((_, w, d)) if !w.is_empty() => (w.clone(), d.clone()),
                            Some((_, _, d)) => ("duplicate".to_string(), d.clone()),
                            None => ("unknown-message".to_string(), String::new()),
                        };
                        out.violate(Violation::new(
                            format!("icmp-errors:delivered-despite-mismatch:{}", why),
                            format!(
                                "recv returned {} octets from {} [{}]: {} - it does not match the socket's endpoint (port {} {}, address {}) in: {}",
                                n, from, hex(got), which, port, if tcp_bound { "TCP" } else { "UDP" }, if addr_bound { own.to_string() } else { "any".into() }, why
                            ),
                        ));
                        return out;
                    };
                    out.count("errors_delivered_and_compared", 1);
                    if got[0] != e.ty || got[1] != e.code {
                        out.violate(Violation::new("icmp-errors:type-or-code-changed", format!("delivered type {} code {} for {}", got[0], got[1], e.desc)));
                        return out;
                    }
                    if from != e.from {
                        out.violate(Violation::new(
                            "icmp-errors:wrong-source-address",
                            format!("recv reports the message as coming from {} but it was sent by {}: {} (id {:#x})", from, e.from, e.desc, e.id),
                        ));
                        return out;
                    }
                    out.class(format!("icmp-errors:delivered:{}:from-{}", if v6 { "v6" } else { "v4" }, if from == Addr::from_smol(IpAddress::from(Ipv4Address::new(0, 0, 0, 0))) { "zero" } else { "sender" }));
                }
                Err(icmp::RecvError::Exhausted) => {
                    if let Some(e) = model.iter().find(|e| !e.desc.starts_with("(optional)")) {
                        out.violate(Violation::new("icmp-errors:not-delivered", format!("recv reports an empty queue although this message arrived while the queue was empty: {}", e.desc)));
                        return out;
                    }
                    model.clear();
                }
                Err(icmp::RecvError::Truncated) => {
                    out.violate(Violation::new("icmp-errors:truncated-into-2048", "recv_slice with a 2048-octet buffer reported Truncated".to_string()));
                    return out;
                }
            }
        }
    }
    if idx == 0 {
        out.sample = Some(Json::obj().set("part", Json::s("icmp-errors")).set("bound_port", Json::u(port as u64)).set("v6", Json::Bool(v6)));
    }
    out.count("cases_icmp_errors", 1);
    out
}
