//! The accessor tables, one per exported view type of `smoltcp::wire`.
//!
//! Conventions: `t.acc` = accessor without documented precondition (applies always);
//! `t.acc_if(name, predicate, ..)` = accessor whose doc comment restricts it ("panics if ..",
//! "for echo request and reply packets", "Getters for the Router Advertisement message header",
//! ...): the predicate is exactly that restriction.  Tables are straight-line code so that
//! every row is visited for every accepted input.
use super::*;

pub type ExFn = fn(&[u8], &mut Tab) -> (bool, u64);

/// Every exported Packet/Frame/Header/Option view (wire/mod.rs), RPL and IPsec excluded.
/// `IpPacket` (wire::ip::Packet) is not exported and therefore not listed.
pub const TYPES: &[(&str, ExFn)] = &[
    ("EthernetFrame", exercise_ethernet_frame),
    ("ArpPacket", exercise_arp_packet),
    ("Ipv4Packet", exercise_ipv4_packet),
    ("Ipv6Packet", exercise_ipv6_packet),
    ("Ipv6ExtHeader", exercise_ipv6_ext_header),
    ("Ipv6HopByHopHeader", exercise_ipv6_hbh_header),
    ("Ipv6FragmentHeader", exercise_ipv6_fragment_header),
    ("Ipv6RoutingHeader", exercise_ipv6_routing_header),
    ("Ipv6Option", exercise_ipv6_option),
    ("Icmpv4Packet", exercise_icmpv4_packet),
    ("Icmpv6Packet", exercise_icmpv6_packet),
    ("NdiscOption", exercise_ndisc_option),
    ("MldAddressRecord", exercise_mld_address_record),
    ("IgmpPacket", exercise_igmp_packet),
    ("UdpPacket", exercise_udp_packet),
    ("TcpPacket", exercise_tcp_packet),
    ("DhcpPacket", exercise_dhcp_packet),
    ("DnsPacket", exercise_dns_packet),
    ("Ieee802154Frame", exercise_ieee802154_frame),
    ("SixlowpanPacket", exercise_sixlowpan_dispatch),
    ("SixlowpanIphcPacket", exercise_sixlowpan_iphc_packet),
    ("SixlowpanNhcPacket", exercise_sixlowpan_nhc_dispatch),
    ("SixlowpanExtHeaderPacket", exercise_sixlowpan_ext_header_packet),
    ("SixlowpanUdpNhcPacket", exercise_sixlowpan_udp_nhc_packet),
    ("SixlowpanFragPacket", exercise_sixlowpan_frag_packet),
];

pub fn type_index(name: &str) -> Option<usize> {
    TYPES.iter().position(|t| t.0 == name)
}

// ---------------------------------------------------------------- Ethernet / ARP

pub fn exercise_ethernet_frame(b: &[u8], t: &mut Tab) -> (bool, u64) {
    let Ok(p) = EthernetFrame::new_checked(b) else { return (false, 0) };
    t.acc("dst_addr", || p.dst_addr());
    t.acc("src_addr", || p.src_addr());
    t.acc("ethertype", || p.ethertype());
    t.acc("payload", || p.payload().len());
    t.acc("as_ref", || p.as_ref().len());
    t.parse("EthernetRepr::parse", || EthernetRepr::parse(&p).is_ok());
    t.fmt("Display", || format!("{}", p));
    t.fmt("PrettyPrinter<EthernetFrame>", || format!("{}", PrettyPrinter::<EthernetFrame<&[u8]>>::new("", &b)));
    t.done()
}

pub fn exercise_arp_packet(b: &[u8], t: &mut Tab) -> (bool, u64) {
    let Ok(p) = ArpPacket::new_checked(b) else { return (false, 0) };
    t.acc("hardware_type", || p.hardware_type());
    t.acc("protocol_type", || p.protocol_type());
    t.acc("hardware_len", || p.hardware_len());
    t.acc("protocol_len", || p.protocol_len());
    t.acc("operation", || p.operation());
    t.acc("source_hardware_addr", || p.source_hardware_addr().len());
    t.acc("source_protocol_addr", || p.source_protocol_addr().len());
    t.acc("target_hardware_addr", || p.target_hardware_addr().len());
    t.acc("target_protocol_addr", || p.target_protocol_addr().len());
    t.acc("as_ref", || p.as_ref().len());
    t.parse("ArpRepr::parse", || ArpRepr::parse(&p).is_ok());
    t.fmt("Display", || format!("{}", p));
    t.fmt("PrettyPrinter<ArpPacket>", || format!("{}", PrettyPrinter::<ArpPacket<&[u8]>>::new("", &b)));
    t.done()
}

// ---------------------------------------------------------------- IPv4 / IPv6

pub fn exercise_ipv4_packet(b: &[u8], t: &mut Tab) -> (bool, u64) {
    let Ok(p) = Ipv4Packet::new_checked(b) else { return (false, 0) };
    t.acc("version", || p.version());
    t.acc("header_len", || p.header_len());
    t.acc("dscp", || p.dscp());
    t.acc("ecn", || p.ecn());
    t.acc("total_len", || p.total_len());
    t.acc("ident", || p.ident());
    t.acc("dont_frag", || p.dont_frag());
    t.acc("more_frags", || p.more_frags());
    t.acc("frag_offset", || p.frag_offset());
    t.acc("hop_limit", || p.hop_limit());
    t.acc("next_header", || p.next_header());
    t.acc("checksum", || p.checksum());
    t.acc("src_addr", || p.src_addr());
    t.acc("dst_addr", || p.dst_addr());
    t.acc("verify_checksum", || p.verify_checksum());
    t.acc("get_key", || p.get_key());
    t.acc("payload", || p.payload().len());
    t.acc("as_ref", || p.as_ref().len());
    t.parse("Ipv4Repr::parse(checksums verified)", || Ipv4Repr::parse(&p, &strict()).map(|r| format!("{}", r)).is_ok());
    t.parse("Ipv4Repr::parse(checksums ignored)", || Ipv4Repr::parse(&p, &lax()).is_ok());
    t.fmt("Display", || format!("{}", p));
    t.fmt("PrettyPrinter<Ipv4Packet>", || format!("{}", PrettyPrinter::<Ipv4Packet<&[u8]>>::new("", &b)));
    t.done()
}

pub fn exercise_ipv6_packet(b: &[u8], t: &mut Tab) -> (bool, u64) {
    let Ok(p) = Ipv6Packet::new_checked(b) else { return (false, 0) };
    t.acc("header_len", || p.header_len());
    t.acc("version", || p.version());
    t.acc("traffic_class", || p.traffic_class());
    t.acc("flow_label", || p.flow_label());
    t.acc("payload_len", || p.payload_len());
    t.acc("total_len", || p.total_len());
    t.acc("next_header", || p.next_header());
    t.acc("hop_limit", || p.hop_limit());
    t.acc("src_addr", || p.src_addr());
    t.acc("dst_addr", || p.dst_addr());
    t.acc("payload", || p.payload().len());
    t.acc("as_ref", || p.as_ref().len());
    // Ipv6Repr::parse takes no checksum setting (IPv6 has no header checksum)
    t.parse("Ipv6Repr::parse", || Ipv6Repr::parse(&p).map(|r| format!("{}", r)).is_ok());
    t.fmt("Display", || format!("{}", p));
    t.fmt("PrettyPrinter<Ipv6Packet>", || format!("{}", PrettyPrinter::<Ipv6Packet<&[u8]>>::new("", &b)));
    t.done()
}

// ---------------------------------------------------------------- IPv6 extension headers and options

pub fn exercise_ipv6_ext_header(b: &[u8], t: &mut Tab) -> (bool, u64) {
    let Ok(p) = Ipv6ExtHeader::new_checked(b) else { return (false, 0) };
    t.acc("next_header", || p.next_header());
    t.acc("header_len", || p.header_len());
    t.acc("payload", || p.payload().len());
    t.parse("Ipv6ExtHeaderRepr::parse", || Ipv6ExtHeaderRepr::parse(&p).is_ok());
    t.done()
}

/// Drive an `Ipv6OptionsIterator` to its end; false = more items than the data has bytes.
fn drain_ipv6_options(data: &[u8]) -> (bool, usize, bool) {
    let mut n = 0usize;
    let mut saw_err = false;
    for item in Ipv6OptionsIterator::new(data) {
        n += 1;
        if n > data.len() + 1 {
            return (false, n, saw_err);
        }
        match item {
            Ok(repr) => {
                bb(format!("{}", repr));
                bb(repr.buffer_len());
            }
            Err(_) => saw_err = true,
        }
    }
    (true, n, saw_err)
}

pub fn exercise_ipv6_hbh_header(b: &[u8], t: &mut Tab) -> (bool, u64) {
    let Ok(p) = Ipv6HopByHopHeader::new_checked(b) else { return (false, 0) };
    t.acc("options", || p.options().len());
    t.parse("Ipv6HopByHopRepr::parse", || Ipv6HopByHopRepr::parse(&p).map(|r| r.buffer_len()).is_ok());
    let mut outcome = (true, 0, false);
    t.bounded("Ipv6OptionsIterator over options()", || {
        outcome = drain_ipv6_options(p.options());
        outcome.0
    });
    t.note(match (outcome.2, outcome.1) {
        (true, _) => "options-iter/ends-in-error",
        (false, 0..=1) => "options-iter/0-1",
        (false, 2..=4) => "options-iter/2-4",
        (false, _) => "options-iter/5+",
    });
    t.done()
}

pub fn exercise_ipv6_fragment_header(b: &[u8], t: &mut Tab) -> (bool, u64) {
    let Ok(p) = Ipv6FragmentHeader::new_checked(b) else { return (false, 0) };
    t.acc("frag_offset", || p.frag_offset());
    t.acc("more_frags", || p.more_frags());
    t.acc("ident", || p.ident());
    t.parse("Ipv6FragmentRepr::parse", || Ipv6FragmentRepr::parse(&p).is_ok());
    t.fmt("Display", || format!("{}", p));
    t.done()
}

pub fn exercise_ipv6_routing_header(b: &[u8], t: &mut Tab) -> (bool, u64) {
    let Ok(p) = Ipv6RoutingHeader::new_checked(b) else { return (false, 0) };
    let ty = p.routing_type();
    t.acc("routing_type", || p.routing_type());
    t.acc("segments_left", || p.segments_left());
    // "may panic if this header is not the Type2 Routing Header routing type"
    t.acc_if("home_address", ty == Ipv6RoutingType::Type2, || p.home_address());
    // "may panic if this header is not the RPL Source Routing Header routing type"
    let rpl = ty == Ipv6RoutingType::Rpl;
    t.acc_if("cmpr_i", rpl, || p.cmpr_i());
    t.acc_if("cmpr_e", rpl, || p.cmpr_e());
    t.acc_if("pad", rpl, || p.pad());
    t.acc_if("addresses", rpl, || p.addresses().len());
    t.parse("Ipv6RoutingRepr::parse", || Ipv6RoutingRepr::parse(&p).map(|r| (r.buffer_len(), format!("{}", r))).is_ok());
    t.fmt("Display", || format!("{}", p));
    t.done()
}

pub fn exercise_ipv6_option(b: &[u8], t: &mut Tab) -> (bool, u64) {
    let Ok(p) = Ipv6Option::new_checked(b) else { return (false, 0) };
    t.acc("option_type", || p.option_type());
    // "This function panics if this is an 1-byte padding option."
    let not_pad1 = p.option_type() != Ipv6OptionType::Pad1;
    t.acc_if("data_len", not_pad1, || p.data_len());
    t.acc_if("data", not_pad1, || p.data().len());
    t.parse("Ipv6OptionRepr::parse", || Ipv6OptionRepr::parse(&p).map(|r| r.buffer_len()).is_ok());
    t.fmt("Display", || format!("{}", p));
    t.done()
}

// ---------------------------------------------------------------- ICMPv4 / IGMP

pub fn exercise_icmpv4_packet(b: &[u8], t: &mut Tab) -> (bool, u64) {
    let Ok(p) = Icmpv4Packet::new_checked(b) else { return (false, 0) };
    let ty = p.msg_type();
    t.acc("msg_type", || p.msg_type());
    t.acc("msg_code", || p.msg_code());
    t.acc("checksum", || p.checksum());
    // "may panic if this packet is not an echo request or reply packet"
    let echo = matches!(ty, Icmpv4Message::EchoRequest | Icmpv4Message::EchoReply);
    t.acc_if("echo_ident", echo, || p.echo_ident());
    t.acc_if("echo_seq_no", echo, || p.echo_seq_no());
    t.acc("header_len", || p.header_len());
    t.acc("verify_checksum", || p.verify_checksum());
    t.acc("data", || p.data().len());
    t.acc("as_ref", || p.as_ref().len());
    t.parse("Icmpv4Repr::parse(checksums verified)", || Icmpv4Repr::parse(&p, &strict()).map(|r| r.buffer_len()).is_ok());
    t.parse("Icmpv4Repr::parse(checksums ignored)", || Icmpv4Repr::parse(&p, &lax()).map(|r| format!("{}", r)).is_ok());
    t.fmt("Display", || format!("{}", p));
    t.fmt("PrettyPrinter<Icmpv4Packet>", || format!("{}", PrettyPrinter::<Icmpv4Packet<&[u8]>>::new("", &b)));
    t.done()
}

pub fn exercise_igmp_packet(b: &[u8], t: &mut Tab) -> (bool, u64) {
    let Ok(p) = IgmpPacket::new_checked(b) else { return (false, 0) };
    t.acc("msg_type", || format!("{}", p.msg_type()));
    t.acc("max_resp_code", || p.max_resp_code());
    t.acc("checksum", || p.checksum());
    t.acc("group_addr", || p.group_addr());
    t.acc("verify_checksum", || p.verify_checksum());
    t.parse("IgmpRepr::parse", || IgmpRepr::parse(&p).map(|r| r.buffer_len()).is_ok());
    t.fmt("Display", || format!("{}", p));
    t.fmt("PrettyPrinter<IgmpPacket>", || format!("{}", PrettyPrinter::<IgmpPacket<&[u8]>>::new("", &b)));
    t.done()
}

// ---------------------------------------------------------------- ICMPv6 (+ NDISC and MLD accessors)

pub fn exercise_icmpv6_packet(b: &[u8], t: &mut Tab) -> (bool, u64) {
    use Icmpv6Message as M;
    let Ok(p) = Icmpv6Packet::new_checked(b) else { return (false, 0) };
    let ty = p.msg_type();
    t.acc("msg_type", || format!("{}", p.msg_type()));
    t.acc("msg_code", || p.msg_code());
    t.acc("checksum", || p.checksum());
    t.acc("header_len", || p.header_len());
    t.acc("verify_checksum", || p.verify_checksum(&corpus::V6A, &corpus::V6B));
    t.acc("payload", || p.payload().len());
    t.acc("as_ref", || p.as_ref().len());
    // "(for echo request and reply packets)"
    let echo = matches!(ty, M::EchoRequest | M::EchoReply);
    t.acc_if("echo_ident", echo, || p.echo_ident());
    t.acc_if("echo_seq_no", echo, || p.echo_seq_no());
    // "(for packet too big messages)" / "(for parameter problem messages)"
    t.acc_if("pkt_too_big_mtu", ty == M::PktTooBig, || p.pkt_too_big_mtu());
    t.acc_if("param_problem_ptr", ty == M::ParamProblem, || p.param_problem_ptr());
    // ndisc.rs: "Getters for the Router Advertisement message header"
    let ra = ty == M::RouterAdvert;
    t.acc_if("current_hop_limit", ra, || p.current_hop_limit());
    t.acc_if("router_flags", ra, || p.router_flags());
    t.acc_if("router_lifetime", ra, || p.router_lifetime());
    t.acc_if("reachable_time", ra, || p.reachable_time());
    t.acc_if("retrans_time", ra, || p.retrans_time());
    // "Common getters for the Neighbor Solicitation, Neighbor Advertisement, and Redirect message types"
    t.acc_if("target_addr", matches!(ty, M::NeighborSolicit | M::NeighborAdvert | M::Redirect), || p.target_addr());
    // documented under the Neighbor Solicitation header, used by NdiscRepr::parse for Neighbor Advertisements
    t.acc_if("neighbor_flags", matches!(ty, M::NeighborSolicit | M::NeighborAdvert), || p.neighbor_flags());
    // "Getters for the Redirect message header"
    t.acc_if("dest_addr", ty == M::Redirect, || p.dest_addr());
    // mld.rs: "Getters for the Multicast Listener Query message header"
    let mq = ty == M::MldQuery;
    t.acc_if("max_resp_code", mq, || p.max_resp_code());
    t.acc_if("mcast_addr", mq, || p.mcast_addr());
    t.acc_if("s_flag", mq, || p.s_flag());
    t.acc_if("qrv", mq, || p.qrv());
    t.acc_if("qqic", mq, || p.qqic());
    t.acc_if("num_srcs", mq, || p.num_srcs());
    // "Getters for the Multicast Listener Report message header"
    t.acc_if("nr_mcast_addr_rcrds", ty == M::MldReport, || p.nr_mcast_addr_rcrds());
    t.parse("Icmpv6Repr::parse(checksums verified)", || Icmpv6Repr::parse(&corpus::V6A, &corpus::V6B, &p, &strict()).map(|r| r.buffer_len()).is_ok());
    t.parse("Icmpv6Repr::parse(checksums ignored)", || Icmpv6Repr::parse(&corpus::V6A, &corpus::V6B, &p, &lax()).map(|r| r.buffer_len()).is_ok());
    // the message-family parsers are public as well; they apply to their own message types (any code)
    t.parse_if("NdiscRepr::parse", ty.is_ndisc(), || NdiscRepr::parse(&p).map(|r| r.buffer_len()).is_ok());
    t.parse_if("MldRepr::parse", ty.is_mld(), || MldRepr::parse(&p).map(|r| r.buffer_len()).is_ok());
    t.note(if ty.is_ndisc() {
        "ndisc"
    } else if ty.is_mld() {
        "mld"
    } else if ty.is_error() {
        "error-message"
    } else {
        "echo"
    });
    t.done()
}

pub fn exercise_ndisc_option(b: &[u8], t: &mut Tab) -> (bool, u64) {
    use NdiscOptionType as T;
    let Ok(p) = NdiscOption::new_checked(b) else { return (false, 0) };
    let ty = p.option_type();
    t.acc("option_type", || format!("{}", p.option_type()));
    t.acc("data_len", || p.data_len());
    t.acc("data", || p.data().len());
    // "Getter methods only relevant for Source/Target Link-layer Address options"
    t.acc_if("link_layer_addr", matches!(ty, T::SourceLinkLayerAddr | T::TargetLinkLayerAddr), || format!("{}", p.link_layer_addr()));
    // "Getter methods only relevant for the MTU option"
    t.acc_if("mtu", ty == T::Mtu, || p.mtu());
    // "Getter methods only relevant for the Prefix Information option"
    let pi = ty == T::PrefixInformation;
    t.acc_if("prefix_len", pi, || p.prefix_len());
    t.acc_if("prefix_flags", pi, || p.prefix_flags());
    t.acc_if("valid_lifetime", pi, || p.valid_lifetime());
    t.acc_if("preferred_lifetime", pi, || p.preferred_lifetime());
    t.acc_if("prefix", pi, || p.prefix());
    t.parse("NdiscOptionRepr::parse", || NdiscOptionRepr::parse(&p).map(|r| r.buffer_len()).is_ok());
    t.fmt("Display", || format!("{}", p));
    t.fmt("PrettyPrinter<NdiscOption>", || format!("{}", PrettyPrinter::<NdiscOption<&[u8]>>::new("", &b)));
    t.done()
}

pub fn exercise_mld_address_record(b: &[u8], t: &mut Tab) -> (bool, u64) {
    let Ok(p) = MldAddressRecord::new_checked(b) else { return (false, 0) };
    t.acc("record_type", || p.record_type());
    t.acc("aux_data_len", || p.aux_data_len());
    t.acc("num_srcs", || p.num_srcs());
    t.acc("mcast_addr", || p.mcast_addr());
    t.acc("payload", || p.payload().len());
    t.parse("MldAddressRecordRepr::parse", || MldAddressRecordRepr::parse(&p).map(|r| r.buffer_len()).is_ok());
    t.done()
}

// ---------------------------------------------------------------- UDP / TCP

pub fn exercise_udp_packet(b: &[u8], t: &mut Tab) -> (bool, u64) {
    let Ok(p) = UdpPacket::new_checked(b) else { return (false, 0) };
    t.acc("src_port", || p.src_port());
    t.acc("dst_port", || p.dst_port());
    t.acc("len", || p.len());
    t.acc("checksum", || p.checksum());
    // the checksum helpers panic "unless src_addr and dst_addr belong to the same family": both families are used
    t.acc("verify_partial_checksum(v4)", || p.verify_partial_checksum(&a4(), &b4()));
    t.acc("verify_partial_checksum(v6)", || p.verify_partial_checksum(&a6(), &b6()));
    t.acc("verify_checksum(v4)", || p.verify_checksum(&a4(), &b4()));
    t.acc("verify_checksum(v6)", || p.verify_checksum(&a6(), &b6()));
    t.acc("payload", || p.payload().len());
    t.acc("as_ref", || p.as_ref().len());
    t.parse("UdpRepr::parse(v4, checksums verified)", || UdpRepr::parse(&p, &a4(), &b4(), &strict()).map(|r| format!("{}", r)).is_ok());
    t.parse("UdpRepr::parse(v4, checksums ignored)", || UdpRepr::parse(&p, &a4(), &b4(), &lax()).is_ok());
    t.parse("UdpRepr::parse(v6, checksums verified)", || UdpRepr::parse(&p, &a6(), &b6(), &strict()).is_ok());
    t.parse("UdpRepr::parse(v6, checksums ignored)", || UdpRepr::parse(&p, &a6(), &b6(), &lax()).is_ok());
    t.fmt("Display", || format!("{}", p));
    t.fmt("PrettyPrinter<UdpPacket>", || format!("{}", PrettyPrinter::<UdpPacket<&[u8]>>::new("", &b)));
    t.done()
}

pub fn exercise_tcp_packet(b: &[u8], t: &mut Tab) -> (bool, u64) {
    let Ok(p) = TcpPacket::new_checked(b) else { return (false, 0) };
    t.acc("src_port", || p.src_port());
    t.acc("dst_port", || p.dst_port());
    t.acc("seq_number", || format!("{}", p.seq_number()));
    t.acc("ack_number", || p.ack_number());
    t.acc("fin", || p.fin());
    t.acc("syn", || p.syn());
    t.acc("rst", || p.rst());
    t.acc("psh", || p.psh());
    t.acc("ack", || p.ack());
    t.acc("urg", || p.urg());
    t.acc("ece", || p.ece());
    t.acc("cwr", || p.cwr());
    t.acc("ns", || p.ns());
    t.acc("header_len", || p.header_len());
    t.acc("window_len", || p.window_len());
    t.acc("checksum", || p.checksum());
    t.acc("urgent_at", || p.urgent_at());
    t.acc("segment_len", || p.segment_len());
    t.acc("options", || p.options().len());
    // the option loop every consumer writes: each Ok must make progress
    let mut shape = "tcp-options/none";
    t.bounded("TcpOption::parse loop over options()", || {
        let mut rest = p.options();
        let budget = rest.len() + 1;
        let mut n = 0usize;
        while !rest.is_empty() {
            n += 1;
            if n > budget {
                return false;
            }
            match TcpOption::parse(rest) {
                Ok((next, opt)) => {
                    bb(opt.buffer_len());
                    if next.len() >= rest.len() {
                        return false; // no progress: a consumer loop would spin forever
                    }
                    shape = "tcp-options/well-formed";
                    if opt == TcpOption::EndOfList {
                        break;
                    }
                    rest = next;
                }
                Err(_) => {
                    shape = "tcp-options/malformed";
                    break;
                }
            }
        }
        true
    });
    t.note(shape);
    t.acc("selective_ack_permitted", || p.selective_ack_permitted().is_ok());
    t.acc("selective_ack_ranges", || p.selective_ack_ranges().is_ok());
    t.acc("options_summary", || p.options_summary().is_ok());
    t.acc("verify_partial_checksum(v4)", || p.verify_partial_checksum(&a4(), &b4()));
    t.acc("verify_partial_checksum(v6)", || p.verify_partial_checksum(&a6(), &b6()));
    t.acc("verify_checksum(v4)", || p.verify_checksum(&a4(), &b4()));
    t.acc("verify_checksum(v6)", || p.verify_checksum(&a6(), &b6()));
    t.acc("payload", || p.payload().len());
    t.acc("as_ref", || p.as_ref().len());
    t.parse("TcpRepr::parse(v4, checksums verified)", || TcpRepr::parse(&p, &a4(), &b4(), &strict()).map(|r| (r.buffer_len(), format!("{}", r))).is_ok());
    t.parse("TcpRepr::parse(v4, checksums ignored)", || TcpRepr::parse(&p, &a4(), &b4(), &lax()).map(|r| r.segment_len()).is_ok());
    t.parse("TcpRepr::parse(v6, checksums verified)", || TcpRepr::parse(&p, &a6(), &b6(), &strict()).is_ok());
    t.parse("TcpRepr::parse(v6, checksums ignored)", || TcpRepr::parse(&p, &a6(), &b6(), &lax()).is_ok());
    t.fmt("Display", || format!("{}", p));
    t.fmt("PrettyPrinter<TcpPacket>", || format!("{}", PrettyPrinter::<TcpPacket<&[u8]>>::new("", &b)));
    t.done()
}

// ---------------------------------------------------------------- DHCP / DNS

pub fn exercise_dhcp_packet(b: &[u8], t: &mut Tab) -> (bool, u64) {
    let Ok(p) = DhcpPacket::new_checked(b) else { return (false, 0) };
    t.acc("opcode", || p.opcode());
    t.acc("hardware_type", || p.hardware_type());
    t.acc("hardware_len", || p.hardware_len());
    t.acc("transaction_id", || p.transaction_id());
    t.acc("client_hardware_address", || p.client_hardware_address());
    t.acc("hops", || p.hops());
    t.acc("secs", || p.secs());
    t.acc("magic_number", || p.magic_number());
    t.acc("client_ip", || p.client_ip());
    t.acc("your_ip", || p.your_ip());
    t.acc("server_ip", || p.server_ip());
    t.acc("relay_agent_ip", || p.relay_agent_ip());
    t.acc("flags", || p.flags());
    t.acc("get_sname", || p.get_sname().is_ok());
    t.acc("get_boot_file", || p.get_boot_file().is_ok());
    let mut count = 0usize;
    t.bounded("options() iteration", || {
        let budget = b.len() + 1;
        for opt in p.options() {
            count += 1;
            if count > budget {
                return false;
            }
            bb((opt.kind, opt.data.len()));
        }
        true
    });
    t.note(match count {
        0 => "dhcp-options/0",
        1..=3 => "dhcp-options/1-3",
        _ => "dhcp-options/4+",
    });
    t.parse("DhcpRepr::parse", || DhcpRepr::parse(&p).map(|r| r.buffer_len()).is_ok());
    t.done()
}

/// Independent bounded walk of a compressed name (for the behaviour class only, not an oracle).
fn dns_chain_class(pkt: &[u8], mut off: usize) -> &'static str {
    let mut jumps = 0usize;
    let mut steps = 0usize;
    loop {
        steps += 1;
        if steps > 300 {
            return "dns-name/loop";
        }
        let Some(&x) = pkt.get(off) else { return "dns-name/truncated" };
        match x & 0xc0 {
            0x00 if x == 0 => break,
            0x00 => off += 1 + x as usize,
            0xc0 => {
                let Some(&y) = pkt.get(off + 1) else { return "dns-name/truncated" };
                let ptr = ((x & 0x3f) as usize) << 8 | y as usize;
                if ptr >= off {
                    return "dns-name/forward-or-self-pointer";
                }
                jumps += 1;
                off = ptr;
            }
            _ => return "dns-name/reserved-label-type",
        }
    }
    match jumps {
        0 => "dns-name/chain-0",
        1 => "dns-name/chain-1",
        2..=3 => "dns-name/chain-2-3",
        4..=7 => "dns-name/chain-4-7",
        _ => "dns-name/chain-8+",
    }
}

/// Iterate `parse_name` to its end, like smoltcp's DNS socket does (stop at the first Err).
/// false = more labels than packet + name have bytes.
fn drain_name(p: &DnsPacket<&[u8]>, name: &[u8], pkt_len: usize) -> bool {
    let budget = pkt_len + name.len() + 1;
    let mut n = 0usize;
    for label in p.parse_name(name) {
        n += 1;
        if n > budget {
            return false;
        }
        match label {
            Ok(l) => {
                bb(l.len());
            }
            Err(_) => break,
        }
    }
    true
}

pub fn exercise_dns_packet(b: &[u8], t: &mut Tab) -> (bool, u64) {
    let Ok(p) = DnsPacket::new_checked(b) else { return (false, 0) };
    t.acc("payload", || p.payload().len());
    t.acc("transaction_id", || p.transaction_id());
    t.acc("flags", || p.flags());
    t.acc("opcode", || p.opcode());
    t.acc("rcode", || p.rcode());
    t.acc("question_count", || p.question_count());
    t.acc("answer_record_count", || p.answer_record_count());
    t.acc("authority_record_count", || p.authority_record_count());
    t.acc("additional_record_count", || p.additional_record_count());
    // the sections, walked like socket/dns.rs does
    let budget = b.len() + 1;
    let mut names: Vec<&[u8]> = Vec::new();
    let mut cnames: Vec<&[u8]> = Vec::new();
    let mut rest: &[u8] = &b[12..];
    let (mut nq, mut nr) = (0usize, 0usize);
    let (mut parsed, mut failed) = (0u64, 0u64);
    t.bounded("Question::parse loop", || {
        for _ in 0..p.question_count() {
            nq += 1;
            if nq > budget {
                return false;
            }
            match DnsQuestion::parse(rest) {
                Ok((r, q)) => {
                    if r.len() >= rest.len() {
                        return false;
                    }
                    bb(q.buffer_len());
                    names.push(q.name);
                    rest = r;
                    parsed += 1;
                }
                Err(_) => {
                    failed += 1;
                    break;
                }
            }
        }
        true
    });
    t.bounded("Record::parse loop", || {
        let total = p.answer_record_count() as usize + p.authority_record_count() as usize + p.additional_record_count() as usize;
        for _ in 0..total {
            nr += 1;
            if nr > budget {
                return false;
            }
            match DnsRecord::parse(rest) {
                Ok((r, rec)) => {
                    if r.len() >= rest.len() {
                        return false;
                    }
                    names.push(rec.name);
                    if let DnsRecordData::Cname(data) = rec.data {
                        cnames.push(data);
                    }
                    rest = r;
                    parsed += 1;
                }
                Err(_) => {
                    failed += 1;
                    break;
                }
            }
        }
        true
    });
    t.tally(parsed, failed);
    t.bounded("parse_name(question and record names)", || names.iter().all(|n| drain_name(&p, n, b.len())));
    t.bounded("parse_name(CNAME rdata)", || cnames.iter().all(|n| drain_name(&p, n, b.len())));
    // parse_name accepts any byte string: also start it at the section start and at the first pointer-looking bytes
    let mut starts: Vec<usize> = vec![12];
    starts.extend((12..b.len()).filter(|&i| b[i] & 0xc0 == 0xc0).take(8));
    t.bounded("parse_name(at pointer bytes)", || starts.iter().all(|&s| drain_name(&p, &b[s..], b.len())));
    for &s in starts.iter().take(3) {
        t.note(dns_chain_class(b, s));
    }
    t.note(match (names.len(), cnames.len()) {
        (0, _) => "dns-sections/none-parsed",
        (_, 0) => "dns-sections/parsed",
        _ => "dns-sections/parsed-with-cname",
    });
    t.done()
}

// ---------------------------------------------------------------- IEEE 802.15.4

fn ll_repr() -> Ieee802154Repr {
    Ieee802154Repr {
        frame_type: Ieee802154FrameType::Data,
        security_enabled: false,
        frame_pending: false,
        ack_request: false,
        sequence_number: Some(1),
        pan_id_compression: true,
        frame_version: Ieee802154FrameVersion::Ieee802154_2006,
        dst_pan_id: Some(Ieee802154Pan(0xabcd)),
        dst_addr: Some(Ieee802154Address::Extended(corpus::LL_EXT_B)),
        src_pan_id: None,
        src_addr: Some(Ieee802154Address::Extended(corpus::LL_EXT_A)),
    }
}

pub fn exercise_ieee802154_frame(b: &[u8], t: &mut Tab) -> (bool, u64) {
    let Ok(p) = Ieee802154Frame::new_checked(b) else { return (false, 0) };
    t.acc("frame_type", || format!("{}", p.frame_type()));
    t.acc("security_enabled", || p.security_enabled());
    t.acc("frame_pending", || p.frame_pending());
    t.acc("ack_request", || p.ack_request());
    t.acc("pan_id_compression", || p.pan_id_compression());
    t.acc("sequence_number_suppression", || p.sequence_number_suppression());
    t.acc("ie_present", || p.ie_present());
    t.acc("dst_addressing_mode", || format!("{}", p.dst_addressing_mode()));
    t.acc("frame_version", || p.frame_version());
    t.acc("src_addressing_mode", || format!("{}", p.src_addressing_mode()));
    t.acc("sequence_number", || p.sequence_number());
    // the addressing accessors return Option and decide from the frame-control field themselves
    t.acc("dst_pan_id", || p.dst_pan_id());
    t.acc("dst_addr", || p.dst_addr());
    t.acc("src_pan_id", || p.src_pan_id());
    t.acc("src_addr", || p.src_addr());
    t.acc("mac_header", || p.mac_header().len());
    t.acc("payload", || p.payload().map(|x| x.len()));
    // the auxiliary security header exists only when the frame-control field says so
    let sec = p.security_enabled();
    t.acc_if("security_level", sec, || p.security_level());
    t.acc_if("key_identifier_mode", sec, || p.key_identifier_mode());
    t.acc_if("frame_counter_suppressed", sec, || p.frame_counter_suppressed());
    t.acc_if("frame_counter", sec, || p.frame_counter());
    t.acc_if("key_source", sec, || p.key_source().map(|x| x.len()));
    t.acc_if("key_index", sec, || p.key_index());
    t.acc_if("message_integrity_code", sec, || p.message_integrity_code().map(|x| x.len()));
    t.parse("Ieee802154Repr::parse", || Ieee802154Repr::parse(&p).map(|r| r.buffer_len()).is_ok());
    t.fmt("Display", || format!("{}", p));
    t.note(if sec { "security-header" } else { "no-security-header" });
    t.done()
}

// ---------------------------------------------------------------- 6LoWPAN

pub fn exercise_sixlowpan_dispatch(b: &[u8], t: &mut Tab) -> (bool, u64) {
    // not a view but the exported entry point that decides which 6LoWPAN view applies
    let mut ok = false;
    t.acc("SixlowpanPacket::dispatch", || ok = SixlowpanPacket::dispatch(b).is_ok());
    if !ok {
        return (false, 0);
    }
    t.done()
}

pub fn exercise_sixlowpan_nhc_dispatch(b: &[u8], t: &mut Tab) -> (bool, u64) {
    let mut ok = false;
    t.acc("SixlowpanNhcPacket::dispatch", || ok = SixlowpanNhcPacket::dispatch(b).is_ok());
    if !ok {
        return (false, 0);
    }
    t.done()
}

pub fn exercise_sixlowpan_iphc_packet(b: &[u8], t: &mut Tab) -> (bool, u64) {
    let Ok(p) = SixlowpanIphcPacket::new_checked(b) else { return (false, 0) };
    let ext = Some(Ieee802154Address::Extended(corpus::LL_EXT_A));
    let short = Some(Ieee802154Address::Short([0x12, 0x34]));
    let ctx: Vec<SixlowpanAddressContext> = (0..16u8).map(|i| SixlowpanAddressContext([0x20, 0x01, 0x0d, 0xb8, 0, 0, 0, i])).collect();
    t.acc("next_header", || format!("{}", p.next_header()));
    t.acc("hop_limit", || p.hop_limit());
    t.acc("src_context_id", || p.src_context_id());
    t.acc("dst_context_id", || p.dst_context_id());
    t.acc("ecn_field", || p.ecn_field());
    t.acc("dscp_field", || p.dscp_field());
    t.acc("flow_label_field", || p.flow_label_field());
    t.acc("src_addr", || p.src_addr().is_ok());
    t.acc("dst_addr", || p.dst_addr().is_ok());
    t.acc("header_len", || p.header_len());
    t.acc("payload", || p.payload().len());
    // the unresolved addresses are meant to be resolved against the link-layer address and the contexts
    t.acc("src_addr().resolve(extended, 16 contexts)", || p.src_addr().map(|a| a.resolve(ext, &ctx).is_ok()));
    t.acc("src_addr().resolve(short, no context)", || p.src_addr().map(|a| a.resolve(short, &[]).is_ok()));
    t.acc("src_addr().resolve(none, 1 context)", || p.src_addr().map(|a| a.resolve(None, &ctx[..1]).is_ok()));
    t.acc("dst_addr().resolve(extended, 16 contexts)", || p.dst_addr().map(|a| a.resolve(ext, &ctx).is_ok()));
    t.acc("dst_addr().resolve(short, no context)", || p.dst_addr().map(|a| a.resolve(short, &[]).is_ok()));
    t.acc("dst_addr().resolve(none, 1 context)", || p.dst_addr().map(|a| a.resolve(None, &ctx[..1]).is_ok()));
    t.parse("SixlowpanIphcRepr::parse(ll ext/short, 16 contexts)", || SixlowpanIphcRepr::parse(&p, ext, short, &ctx).map(|r| (r.buffer_len(), format!("{}", r))).is_ok());
    t.parse("SixlowpanIphcRepr::parse(no ll, no context)", || SixlowpanIphcRepr::parse(&p, None, None, &[]).is_ok());
    t.parse("SixlowpanIphcRepr::parse(ll short/ext, 1 context)", || SixlowpanIphcRepr::parse(&p, short, ext, &ctx[..1]).is_ok());
    t.done()
}

pub fn exercise_sixlowpan_ext_header_packet(b: &[u8], t: &mut Tab) -> (bool, u64) {
    let Ok(p) = SixlowpanExtHeaderPacket::new_checked(b) else { return (false, 0) };
    t.acc("extension_header_id", || p.extension_header_id());
    t.acc("length", || p.length());
    t.acc("next_header", || p.next_header());
    t.acc("payload", || p.payload().len());
    t.parse("SixlowpanExtHeaderRepr::parse", || SixlowpanExtHeaderRepr::parse(&p).map(|r| r.buffer_len()).is_ok());
    t.done()
}

pub fn exercise_sixlowpan_udp_nhc_packet(b: &[u8], t: &mut Tab) -> (bool, u64) {
    let Ok(p) = SixlowpanUdpNhcPacket::new_checked(b) else { return (false, 0) };
    t.acc("src_port", || p.src_port());
    t.acc("dst_port", || p.dst_port());
    t.acc("checksum", || p.checksum());
    t.acc("payload", || p.payload().len());
    t.parse("SixlowpanUdpNhcRepr::parse(checksums verified)", || SixlowpanUdpNhcRepr::parse(&p, &corpus::V6A, &corpus::V6B, &strict()).map(|r| r.header_len()).is_ok());
    t.parse("SixlowpanUdpNhcRepr::parse(checksums ignored)", || SixlowpanUdpNhcRepr::parse(&p, &corpus::V6A, &corpus::V6B, &lax()).is_ok());
    t.done()
}

pub fn exercise_sixlowpan_frag_packet(b: &[u8], t: &mut Tab) -> (bool, u64) {
    let Ok(p) = SixlowpanFragPacket::new_checked(b) else { return (false, 0) };
    t.acc("dispatch", || p.dispatch());
    t.acc("datagram_size", || p.datagram_size());
    t.acc("datagram_tag", || p.datagram_tag());
    t.acc("datagram_offset", || p.datagram_offset());
    t.acc("is_first_fragment", || p.is_first_fragment());
    // get_key unwraps the link-layer addresses of its argument: a representation with both addresses is passed
    t.acc("get_key", || p.get_key(&ll_repr()));
    t.acc("payload", || p.payload().len());
    t.parse("SixlowpanFragRepr::parse", || SixlowpanFragRepr::parse(&p).map(|r| (r.buffer_len(), format!("{}", r))).is_ok());
    t.done()
}
