//! The input sources of C07, one part per source so that the evidence is per source.
use super::tables::type_index;
use super::*;

// ---------------------------------------------------------------- part "table": corpus + table self-check

/// Runs the whole corpus through every table with row accounting switched on and checks
/// the harness itself: every corpus packet is accepted by the view it was built for, and
/// every row of every table is reachable (a row no well-formed packet ever reaches would
/// be untested code in the monitor).  Neither check is a statement about smoltcp.
fn table_case(_idx: u64, _rng: &mut Rng, _ctx: &Ctx) -> CaseOut {
    guarded("corpus", |sink, out| {
        sink.rows = Some(vec![Vec::new(); TYPES.len()]);
        let mut per_layer: BTreeMap<&'static str, u64> = BTreeMap::new();
        for pkt in corpus() {
            let mask = sink.feed(&pkt.bytes);
            *per_layer.entry(pkt.layer).or_insert(0) += 1;
            match type_index(pkt.layer) {
                Some(li) if mask & (1 << li) != 0 => {}
                Some(_) => out.harness_errors.push(format!("corpus packet `{}` is not accepted by its own view {}", pkt.name, pkt.layer)),
                None => out.harness_errors.push(format!("corpus packet `{}` names an unknown view {}", pkt.name, pkt.layer)),
            }
        }
        // the hand-written hostile inputs reach the error-handling rows
        for v in hostile::dns_systematic().iter().chain(hostile::option_systematic().iter()) {
            sink.feed(v);
        }
        let rows = sink.rows.take().unwrap_or_default();
        let mut listing = Json::obj();
        for (i, r) in rows.iter().enumerate() {
            let ty = TYPES[i].0;
            out.count(&format!("{}/table_rows", ty), r.len() as u64);
            out.count("table_rows_total", r.len() as u64);
            listing.put(ty, Json::Obj(r.iter().map(|(n, c)| (n.to_string(), Json::u(*c))).collect()));
            for (name, calls) in r {
                if *calls == 0 {
                    out.harness_errors.push(format!("row {}::{} is never applicable on the corpus", ty, name));
                }
            }
        }
        for (ty, _) in TYPES {
            let dispatcher = *ty == "SixlowpanPacket" || *ty == "SixlowpanNhcPacket";
            if !dispatcher && !per_layer.contains_key(ty) {
                out.harness_errors.push(format!("the corpus has no well-formed packet for {}", ty));
            }
        }
        out.count("corpus_packets", corpus().len() as u64);
        out.sample = Some(
            Json::obj()
                .set("kind", Json::s("accessor tables: rows and how often the corpus + hand-written hostile inputs reached them"))
                .set("corpus_packets", Json::arr(corpus().iter().map(|p| Json::s(format!("{} [{}; {} bytes]", p.name, p.layer, p.bytes.len())))))
                .set("rows", listing),
        );
    })
}

// ---------------------------------------------------------------- part "random": arbitrary bytes

/// Header sizes of the view types; random lengths cluster around them.
const HEADER_SIZES: &[usize] = &[0, 1, 2, 3, 4, 5, 6, 8, 9, 12, 14, 16, 20, 24, 28, 32, 40, 48, 60, 64, 127, 128, 236, 240, 241, 300];

/// First octets that select a message type / version / dispatch in some view.
const FIRST_OCTETS: &[u8] = &[
    0x45, 0x46, 0x4f, 0x60, 0x6f, 0x00, 0x01, 0x02, 0x03, 0x04, 0x05, 0x08, 0x0b, 0x11, 0x12, 0x16, 0x17, 0x80, 0x81, 0x82, 0x85, 0x86, 0x87, 0x88, 0x89, 0x8f, 0x9b, 0x41, 0x61, 0x69, 0x09, 0x29,
    0x49, 0xc0, 0xc4, 0xe0, 0xe3, 0xe7, 0xee, 0x78, 0x7a, 0x7e, 0x7f, 0x60, 0x63, 0xf0, 0xf3, 0xf4, 0xf7, 0xff,
];

const LOW_ENTROPY: &[u8] = &[0, 0, 0, 1, 2, 3, 4, 5, 6, 8, 0x10, 0x20, 0x40, 0x45, 0x50, 0x60, 0x7f, 0x80, 0xc0, 0xfe, 0xff];

fn random_len(rng: &mut Rng) -> usize {
    match rng.below(10) {
        0..=3 => {
            let h = *rng.pick(HEADER_SIZES) as i64;
            (h + rng.range(0, 6) as i64 - 2).max(0) as usize
        }
        4..=6 => rng.urange(0, 64),
        7 | 8 => rng.urange(0, 300),
        _ => {
            if rng.chance(1, 8) {
                2048
            } else {
                rng.urange(0, 2048)
            }
        }
    }
}

/// Arbitrary bytes.  Only the DISTRIBUTION is biased (towards values that get past the
/// first checks of some view); every byte string of length 0..=2048 remains possible.
pub fn random_input(rng: &mut Rng) -> Vec<u8> {
    let len = random_len(rng);
    let mut v = match rng.below(4) {
        0 | 1 => rng.bytes(len),
        2 => (0..len).map(|_| *rng.pick(LOW_ENTROPY)).collect(),
        _ => {
            let mut z = vec![0u8; len];
            for _ in 0..rng.urange(0, 6) {
                if len > 0 {
                    let i = rng.usize_below(len);
                    z[i] = rng.u8();
                }
            }
            z
        }
    };
    if rng.chance(1, 3) {
        shape_hint(rng, &mut v);
    } else if len > 0 && rng.chance(2, 3) {
        v[0] = *rng.pick(FIRST_OCTETS);
        // a few length-like 16-bit fields near the start, consistent-ish with the real length
        for _ in 0..rng.urange(0, 3) {
            if len < 2 {
                break;
            }
            let pos = rng.usize_below(len.min(64) - 1);
            let val = match rng.below(6) {
                0 => len,
                1 => len.saturating_sub(*rng.pick(HEADER_SIZES)),
                2 => len + 1,
                3 => len.saturating_sub(1),
                4 => rng.urange(0, 64),
                _ => rng.urange(0, len),
            } as u16;
            v[pos..pos + 2].copy_from_slice(&val.to_be_bytes());
        }
        for _ in 0..rng.urange(0, 3) {
            let pos = rng.usize_below(len.min(16));
            v[pos] = *rng.pick(FIRST_OCTETS);
        }
    }
    v
}

/// A length-like value for a 16-bit field of a buffer of `len` bytes: mostly consistent, sometimes just off.
fn lenish(rng: &mut Rng, len: usize, header: usize) -> u16 {
    (match rng.below(8) {
        0 => len + 1,
        1 => len.saturating_sub(1),
        2 => header,
        3 => header.saturating_sub(1),
        4 => rng.urange(0, len),
        _ => len,
    }) as u16
}

fn put16(v: &mut [u8], at: usize, x: u16) {
    if at + 2 <= v.len() {
        v[at..at + 2].copy_from_slice(&x.to_be_bytes());
    }
}

fn put8(v: &mut [u8], at: usize, x: u8) {
    if at < v.len() {
        v[at] = x;
    }
}

/// Overwrite the one or two fields a view checks first (version / header length / total length /
/// dispatch ...) with plausible values, so that random bytes get past `new_checked` more often.
/// The rest of the buffer stays random.
fn shape_hint(rng: &mut Rng, v: &mut Vec<u8>) {
    let len = v.len();
    match rng.below(14) {
        0 => {
            // IPv4: version/IHL and total length
            let ihl = if rng.chance(1, 6) { rng.below(16) as u8 } else { rng.range(5, 8) as u8 };
            put8(v, 0, 0x40 | ihl);
            put16(v, 2, lenish(rng, len, ihl as usize * 4));
            put8(v, 9, *rng.pick(&[1u8, 2, 6, 17, 58, 0]));
        }
        1 => {
            // IPv6: version and payload length
            put8(v, 0, 0x60 | rng.below(16) as u8);
            put16(v, 4, lenish(rng, len, 40).wrapping_sub(40));
            put8(v, 6, *rng.pick(&[0u8, 6, 17, 43, 44, 58, 59, 60]));
        }
        2 => put16(v, 4, lenish(rng, len, 8)), // UDP length
        3 => {
            // TCP data offset
            let doff = if rng.chance(1, 6) { rng.below(16) as u8 } else { rng.range(5, 15) as u8 };
            put8(v, 12, doff << 4 | rng.below(2) as u8);
            put8(v, 13, rng.u8());
        }
        4 => {
            // ARP hardware / protocol lengths
            put16(v, 0, 1);
            put16(v, 2, 0x0800);
            put8(v, 4, *rng.pick(&[6u8, 6, 0, 8, 255]));
            put8(v, 5, *rng.pick(&[4u8, 4, 0, 16, 255]));
        }
        5 => {
            // IEEE 802.15.4: frames are at most 127 bytes; version must not be 0b11
            v.truncate(rng.urange(0, 127));
            let fc = rng.u16() & !(1 << 13) | if rng.chance(1, 2) { 1 << 3 } else { 0 };
            if v.len() >= 2 {
                v[..2].copy_from_slice(&fc.to_le_bytes());
            }
        }
        6 => {
            // DHCP: magic cookie, Ethernet hardware type
            if len >= 240 {
                put8(v, 0, rng.range(1, 2) as u8);
                put8(v, 1, 1);
                put8(v, 2, 6);
                v[236..240].copy_from_slice(&[0x63, 0x82, 0x53, 0x63]);
            }
        }
        7 => {
            // DNS: small section counts
            for at in [4usize, 6, 8, 10] {
                put16(v, at, rng.below(4) as u16);
            }
        }
        8 => {
            // ICMPv6 message types that have a view
            put8(v, 0, *rng.pick(&[1u8, 2, 3, 4, 128, 129, 130, 133, 134, 135, 136, 137, 143]));
            put8(v, 1, if rng.chance(3, 4) { 0 } else { rng.u8() });
        }
        9 => {
            // NDISC option: type and length in units of 8
            put8(v, 0, rng.range(1, 6) as u8);
            put8(v, 1, if rng.chance(1, 5) { rng.u8() } else { (len / 8).min(255) as u8 });
        }
        10 => {
            // IPv6 extension header / option: length octet consistent with the buffer
            put8(v, 1, if rng.chance(1, 4) { rng.u8() } else { (len.saturating_sub(if rng.bool() { 8 } else { 2 }) / if rng.bool() { 8 } else { 1 }).min(255) as u8 });
        }
        11 => {
            // 6LoWPAN dispatch values: fragment headers, IPHC, NHC
            put8(v, 0, *rng.pick(&[0xc0u8, 0xc5, 0xe0, 0xe7, 0x60, 0x7a, 0x7f, 0x78, 0xe0, 0xe1, 0xee, 0xf0, 0xf3, 0xf7]) | rng.below(2) as u8);
        }
        12 => {
            // ICMPv4 / IGMP type octets
            put8(v, 0, *rng.pick(&[0u8, 3, 8, 11, 0x11, 0x12, 0x16, 0x17]));
            put8(v, 1, if rng.chance(3, 4) { 0 } else { rng.u8() });
        }
        _ => {
            // IPv6 routing header types
            put8(v, 0, *rng.pick(&[2u8, 3, 0, 4]));
        }
    }
}

fn random_case(idx: u64, rng: &mut Rng, _ctx: &Ctx) -> CaseOut {
    let inputs: Vec<Vec<u8>> = (0..256).map(|_| random_input(rng)).collect();
    guarded("random", move |sink, out| {
        for v in &inputs {
            sink.feed(v);
        }
        if idx == 0 {
            out.sample = Some(Json::obj().set("kind", Json::s("arbitrary bytes")).set("first_input", Json::hex(&inputs[0])).set("batch", Json::u(inputs.len() as u64)));
        }
    })
}

// ---------------------------------------------------------------- part "trunc": every truncation of every corpus packet

fn trunc_case(idx: u64, _rng: &mut Rng, _ctx: &Ctx) -> CaseOut {
    guarded("truncation", move |sink, out| {
        let pkt = &corpus()[idx as usize];
        for len in 0..=pkt.bytes.len() {
            sink.feed(&pkt.bytes[..len]);
        }
        out.count("truncation_packets", 1);
        if idx == 0 {
            out.sample = Some(Json::obj().set("kind", Json::s("every prefix of a corpus packet")).set("packet", Json::s(pkt.name)).set("bytes", Json::hex(&pkt.bytes)));
        }
    })
}

// ---------------------------------------------------------------- part "corrupt": every single-field corruption

fn corrupt_case(idx: u64, _rng: &mut Rng, _ctx: &Ctx) -> CaseOut {
    guarded("corruption", move |sink, out| {
        let pkt = &corpus()[idx as usize];
        let mut m = pkt.bytes.clone();
        for pos in 0..m.len() {
            let orig = m[pos];
            for v in [0u8, 1, 0x7f, 0x80, 0xfe, 0xff, orig.wrapping_add(1), orig.wrapping_sub(1)] {
                if v == orig {
                    continue;
                }
                m[pos] = v;
                sink.feed(&m);
            }
            m[pos] = orig;
        }
        let mut pos = 0;
        while pos + 1 < m.len() {
            let orig = [m[pos], m[pos + 1]];
            for v in [[0u8, 0u8], [0xff, 0xff]] {
                if v == orig {
                    continue;
                }
                m[pos..pos + 2].copy_from_slice(&v);
                sink.feed(&m);
            }
            m[pos..pos + 2].copy_from_slice(&orig);
            pos += 2;
        }
        out.count("corruption_packets", 1);
        if idx == 0 {
            out.sample = Some(Json::obj().set("kind", Json::s("each byte := {0,1,7f,80,fe,ff,orig+1,orig-1}; each aligned 16-bit pair := {0000,ffff}")).set("packet", Json::s(pkt.name)));
        }
    })
}

/// Two to four simultaneous field corruptions (boundary or random values) of one corpus packet.
fn corrupt_multi_case(idx: u64, rng: &mut Rng, _ctx: &Ctx) -> CaseOut {
    let c = corpus();
    let mut inputs = Vec::new();
    for _ in 0..64 {
        let mut m = rng.pick(c).bytes.clone();
        if m.is_empty() {
            continue;
        }
        for _ in 0..rng.urange(2, 4) {
            let pos = rng.usize_below(m.len());
            m[pos] = match rng.below(4) {
                0 => rng.u8(),
                1 => m[pos].wrapping_add(1),
                2 => m[pos].wrapping_sub(1),
                _ => *rng.pick(&[0u8, 1, 0x7f, 0x80, 0xfe, 0xff]),
            };
        }
        inputs.push(m);
    }
    guarded("multi-corruption", move |sink, out| {
        for v in &inputs {
            sink.feed(v);
        }
        if idx == 0 {
            out.sample = Some(Json::obj().set("kind", Json::s("2-4 corrupted bytes per corpus packet")).set("first_input", Json::hex(&inputs[0])));
        }
    })
}

// ---------------------------------------------------------------- part "splice"

fn splice_case(idx: u64, rng: &mut Rng, _ctx: &Ctx) -> CaseOut {
    let c = corpus();
    let mut inputs = Vec::new();
    for _ in 0..64 {
        let a = &rng.pick(c).bytes;
        let b = &rng.pick(c).bytes;
        let i = rng.urange(0, a.len());
        let j = rng.urange(0, b.len());
        let mut v = a[..i].to_vec();
        v.extend_from_slice(&b[j..]);
        if rng.chance(1, 3) {
            // insertion: the tail of `a` follows
            v.extend_from_slice(&a[i..]);
        }
        v.truncate(2048);
        inputs.push(v);
    }
    guarded("splice", move |sink, out| {
        for v in &inputs {
            sink.feed(v);
        }
        if idx == 0 {
            out.sample = Some(Json::obj().set("kind", Json::s("head of one corpus packet + tail of another")).set("first_input", Json::hex(&inputs[0])));
        }
    })
}

// ---------------------------------------------------------------- part "dns"

const DNS_SYS_CHUNK: usize = 8;

fn dns_sys_cases() -> u64 {
    hostile::dns_systematic().len().div_ceil(DNS_SYS_CHUNK) as u64
}

fn dns_case(idx: u64, rng: &mut Rng, _ctx: &Ctx) -> CaseOut {
    let mut inputs: Vec<Vec<u8>> = Vec::new();
    let sys = hostile::dns_systematic();
    if idx < dns_sys_cases() {
        // the hand-written structures and every truncation of them
        for v in sys.iter().skip(idx as usize * DNS_SYS_CHUNK).take(DNS_SYS_CHUNK) {
            for len in 12.min(v.len())..=v.len() {
                inputs.push(v[..len].to_vec());
            }
        }
    } else {
        for _ in 0..128 {
            let mut v = if rng.chance(1, 5) { rng.pick(sys).clone() } else { hostile::dns_random(rng) };
            if rng.chance(1, 3) && v.len() > 12 {
                // one more twist: a random byte becomes a pointer / label-length boundary value
                let pos = rng.urange(12, v.len() - 1);
                v[pos] = *rng.pick(&[0u8, 1, 0x3f, 0x40, 0x7f, 0x80, 0xbf, 0xc0, 0xc1, 0xff]);
            }
            inputs.push(v);
        }
    }
    guarded("dns-hostile", move |sink, out| {
        for v in &inputs {
            sink.feed(v);
        }
        out.count("dns_hostile_inputs", inputs.len() as u64);
        if idx == 0 {
            out.sample = Some(Json::obj().set("kind", Json::s("DNS message whose names abuse compression pointers")).set("self_pointer_packet", Json::hex(&hostile::dns_systematic()[0])));
        }
    })
}

// ---------------------------------------------------------------- part "options"

const OPT_SYS_CHUNK: usize = 128;

fn opt_sys_cases() -> u64 {
    hostile::option_systematic().len().div_ceil(OPT_SYS_CHUNK) as u64
}

fn options_case(idx: u64, rng: &mut Rng, _ctx: &Ctx) -> CaseOut {
    let mut inputs: Vec<Vec<u8>> = Vec::new();
    if idx < opt_sys_cases() {
        inputs.extend(hostile::option_systematic().iter().skip(idx as usize * OPT_SYS_CHUNK).take(OPT_SYS_CHUNK).cloned());
    } else {
        for _ in 0..32 {
            inputs.extend(hostile::option_random(rng));
        }
    }
    guarded("option-lists", move |sink, out| {
        for v in &inputs {
            sink.feed(v);
        }
        out.count("option_list_inputs", inputs.len() as u64);
        if idx == 0 {
            out.sample = Some(Json::obj().set("kind", Json::s("TCP / IPv6 / NDISC / DHCP option lists with hostile length octets, bare and inside their containers")).set("first_input", Json::hex(&inputs[0])));
        }
    })
}

// ---------------------------------------------------------------- monitor

fn post(sum: &mut Summary) {
    let mut ratios = Json::obj();
    for (ty, _) in TYPES {
        let get = |k: &str| *sum.counters.get(&format!("{}/{}", ty, k)).unwrap_or(&0);
        let (inputs, accepted) = (get("inputs"), get("accepted"));
        ratios.put(
            ty,
            Json::obj()
                .set("table_rows", Json::u(get("table_rows")))
                .set("inputs", Json::u(inputs))
                .set("accepted", Json::u(accepted))
                .set("accept_ratio", Json::Float(if inputs > 0 { accepted as f64 / inputs as f64 } else { 0.0 }))
                .set("accessor_calls", Json::u(get("accessor_calls")))
                .set("parse_ok", Json::u(get("parse_ok")))
                .set("parse_err", Json::u(get("parse_err"))),
        );
    }
    sum.extra.push(("per_type".into(), ratios));
    sum.extra.push((
        "exhaustive_scope".into(),
        Json::s("parts trunc and corrupt are exhaustive over the stated corpus (every prefix; every byte position x 8 boundary values; every aligned 16-bit pair x 2); all other parts are sampled"),
    ));
}

pub fn monitor() -> crate::mon::Monitor {
    crate::mon::Monitor {
        id: "C07",
        rule: RULE,
        assumptions: &[
            "smoltcp::wire contains no `unsafe`: a read outside the buffer is a bounds-check panic, so 'no panic' covers 'no read outside the buffer'",
            "an accessor documented as valid only for some message type ('panics if ..', 'may panic if this header is not ..', 'for echo request and reply packets', 'Getters for the <X> message header') is called only when the view's own type field says so; accessors without such a note are called on every accepted view",
            "IEEE 802.15.4 auxiliary-security-header accessors (security_level .. message_integrity_code) are called only when the frame-control Security Enabled bit is set",
            "Ipv6Option::data_len/data are not called on a Pad1 option (documented panic)",
            "checksum helpers that document a panic for mixed address families are called with (v4,v4) and (v6,v6) only; SixlowpanFragPacket::get_key gets a link-layer representation with both addresses present",
            "IpPacket (wire::ip::Packet) is not exported by wire/mod.rs and is not covered; RPL and IPsec views are out of scope; DnsRepr has no parser, the sections are walked with Question::parse / Record::parse / parse_name like socket/dns.rs does",
            "non-termination inside one smoltcp call cannot be pre-empted: a case that does not return within 15 s is abandoned by a watchdog and reported as no-termination:<type>",
        ],
        floors: &[("inputs", 1_000_000), ("distinct", 150), ("table_rows_total", 300), ("corpus_packets", 140), ("dns_hostile_inputs", 20_000), ("option_list_inputs", 20_000)],
        parts: vec![
            crate::mon::Part { name: "table", cases: |_| 1, f: table_case },
            crate::mon::Part { name: "random", cases: |c| c.n(6000, 300_000), f: random_case },
            crate::mon::Part { name: "trunc", cases: |_| corpus().len() as u64, f: trunc_case },
            crate::mon::Part { name: "corrupt", cases: |_| corpus().len() as u64, f: corrupt_case },
            crate::mon::Part { name: "corrupt-multi", cases: |c| c.n(400, 100_000), f: corrupt_multi_case },
            crate::mon::Part { name: "splice", cases: |c| c.n(1200, 120_000), f: splice_case },
            crate::mon::Part { name: "dns", cases: |c| dns_sys_cases() + c.n(400, 40_000), f: dns_case },
            crate::mon::Part { name: "options", cases: |c| opt_sys_cases() + c.n(250, 25_000), f: options_case },
        ],
        post: Some(post),
    }
}
