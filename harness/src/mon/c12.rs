//! C12 – IPv4 fragmentation and reassembly reproduce the datagram or deliver nothing.
//!
//! Egress parts: UDP / ICMP / raw sockets and large echo requests (answered by the
//! stack) produce datagrams of every length up to the fragmentation buffer on
//! links with IP MTU 68..1500, one at a time ("egress-single") or back to back from
//! one or several sockets ("egress-b2b"), with polls interleaved and device
//! back-pressure.  Every frame is judged by `indep`: fits the MTU, fragment
//! payloads 8-aligned, one identification per datagram, no overlap; the fragments
//! are reassembled by `indep::x3::frag4` and every datagram the stack accepted must
//! appear as exactly one complete, byte-exact reassembly.
//!
//! Ingress parts: `indep` cuts a UDP datagram into k fragments and delivers them to
//! a FRESH interface in every permutation with every single duplication
//! ("ingress-perm", exhaustive for small k) or in sampled orders with several
//! duplications for k up to 12 ("ingress-sampled").  The bound UDP socket (and a
//! raw observer) must return exactly the original datagram or nothing, at most as
//! often as complete copies arrived, and it MUST return it when the arrival order
//! never needs more separate byte ranges than ASSEMBLER_MAX_SEGMENT_COUNT (own
//! range-set model) and the size fits REASSEMBLY_BUFFER_SIZE.
use crate::indep::x3::frag4;
use crate::indep::{ip, Addr};
use crate::indep::x3::{icmp as iicmp, udp as iudp};
use crate::sim::dgram::*;
use crate::sim::*;
use crate::util::json::Json;
use crate::util::rng::Rng;
use crate::util::run::*;
use smoltcp::config::{ASSEMBLER_MAX_SEGMENT_COUNT, FRAGMENTATION_BUFFER_SIZE, REASSEMBLY_BUFFER_SIZE};
use smoltcp::iface::SocketHandle;
use smoltcp::phy::PacketMeta;
use smoltcp::socket::{icmp, raw, udp};
use smoltcp::wire::{IpEndpoint, IpListenEndpoint, IpProtocol, IpVersion};

pub const RULE: &str = "egress: sockets (udp/icmp/raw) and large echo requests produce IPv4 datagrams of every length up to FRAGMENTATION_BUFFER_SIZE (and a little beyond) at IP MTU 68..1500 on Ethernet and IP media, singly and back to back, with polls, token caps and blocked-device windows interleaved; every frame <= MTU, fragment payloads multiples of 8 except the last, one identification per datagram, no byte carried twice; independent reassembly per (id,src,dst,proto) must yield every accepted datagram exactly once, complete and byte-exact (addresses, protocol, hop limit, ports, payload, valid transport checksum); nothing may stay incomplete at quiescence. ingress: a UDP datagram cut into k fragments arrives at a fresh interface in every permutation with every single duplication (k<=4 quick, k<=5 thorough) and in sampled orders for k<=12 (more when the range table is large), and the fragments of two datagrams of one sender interleaved: the socket returns the original (payload, source endpoint, local address) or nothing, never more often than complete copies arrived, and must return it when the own range-set model never exceeds ASSEMBLER_MAX_SEGMENT_COUNT ranges and the size fits REASSEMBLY_BUFFER_SIZE. A class is (part, socket kind, MTU class, length class, fragment count, back-pressure kind / arrival-order kind, outcome).";

// ================================================================== egress

#[derive(Clone, Copy, Debug, PartialEq)]
enum EKind {
    Udp,
    Icmp,
    Raw,
}

impl EKind {
    fn name(&self) -> &'static str {
        match self {
            EKind::Udp => "udp",
            EKind::Icmp => "icmp",
            EKind::Raw => "raw",
        }
    }
}

struct ESock {
    kind: EKind,
    handle: SocketHandle,
    port: u16,
    ident: u16,
    proto: u8,
    hop: u8,
    next_n: u32,
}

struct ExpRec {
    label: String,
    exp: Expected,
    fits: bool,
    obligatory: bool,
    matched: bool,
    at: Micros,
}

struct Eg<'a> {
    out: CaseOut,
    rng: &'a mut Rng,
    verbose: bool,
    tag: u64,
    cfg: NetCfg,
    host: Host,
    net: Net,
    wire: Wire,
    now: Micros,
    socks: Vec<ESock>,
    exp: Vec<ExpRec>,
    hist: Vec<String>,
    announced: Vec<bool>,
    next_ident: u16,
    n_in: u32,
    accepted: u64,
    refused: u64,
    replies_expected: u64,
    too_big: u64,
    polls: u64,
    polls_blocked: u64,
    caps_hit: u64,
}

const SEQ_INBOUND: u16 = 0x8000;

fn mtu_class(m: usize) -> &'static str {
    match m {
        0..=99 => "68-99",
        100..=299 => "100-299",
        300..=575 => "300-575",
        576..=1279 => "576-1279",
        _ => "1280-1500",
    }
}

impl<'a> Eg<'a> {
    fn log(&mut self, s: String) {
        if self.verbose {
            println!("[{:>10}us] {}", self.now, s);
        }
        if self.hist.len() < 300 {
            self.hist.push(format!("t={} {}", self.now, s));
        }
    }

    fn violate(&mut self, sig: String, desc: String) {
        if self.verbose {
            println!("  VIOLATION [{}] {}", sig, desc);
        }
        let k = self.hist.len().saturating_sub(16);
        let ctx = format!(
            "{} ; link {} IP MTU {} fragmentation buffer {} ; history: {}",
            desc,
            if self.cfg.ethernet { "ethernet" } else { "ip" },
            self.cfg.ip_mtu,
            FRAGMENTATION_BUFFER_SIZE,
            self.hist[k..].join(" | ")
        );
        let frags: Vec<Json> = self
            .wire
            .frag_log
            .iter()
            .rev()
            .take(24)
            .rev()
            .map(|(i, k, o, l, mf)| Json::s(format!("#{} id {:#06x} -> {} off {} len {} {}", i, k.id, Addr::V4(k.dst), o, l, if *mf { "MF" } else { "last" })))
            .collect();
        self.out.violate(Violation::new(sig, ctx).with(Json::obj().set("last_fragments_on_the_wire", Json::Arr(frags))));
    }

    /// Pick an IP total length around the interesting boundaries.
    fn pick_len(&mut self, min_l4: usize) -> usize {
        let mtu = self.cfg.ip_mtu;
        let fb = FRAGMENTATION_BUFFER_SIZE;
        let per = (mtu - 20) & !7;
        let l = match self.rng.below(12) {
            0 => self.rng.urange(20 + min_l4, mtu),
            1 => self.rng.urange(mtu.saturating_sub(9), mtu + 9),
            2 => {
                // around a whole number of maximal fragments
                let k = self.rng.urange(1, (fb / per.max(8)).max(1));
                (20 + k * per).saturating_sub(4) + self.rng.urange(0, 8)
            }
            3 => self.rng.urange(fb.saturating_sub(9), fb + 12),
            4 => fb,
            5 => self.rng.urange(mtu + 1, (2 * mtu).min(fb)),
            6 => self.rng.urange(fb + 1, fb + 64),
            _ => self.rng.urange(mtu + 1, fb),
        };
        l.max(20 + min_l4)
    }

    fn step_send(&mut self, si: usize, want_frag: bool) {
        let kind = self.socks[si].kind;
        let min_l4 = match kind {
            EKind::Udp => 8,
            EKind::Icmp => 8,
            EKind::Raw => 0,
        };
        let mut total = self.pick_len(min_l4);
        if !want_frag && self.rng.chance(1, 2) {
            total = self.rng.urange(20 + min_l4, self.cfg.ip_mtu.max(20 + min_l4));
        }
        let plen = total - 20 - match kind {
            EKind::Raw => 0,
            _ => 8,
        };
        let n = self.socks[si].next_n;
        self.socks[si].next_n += 1;
        let pl = payload(self.tag, si, n, plen);
        let p = self.rng.usize_below(3);
        let dst = peers()[p].v4;
        let hop = self.socks[si].hop;
        let h = self.socks[si].handle;
        let (ok, exp) = match kind {
            EKind::Udp => {
                let dport = 7000 + self.rng.range(0, 9) as u16;
                let meta = udp::UdpMetadata { endpoint: IpEndpoint::new(dst.to_smol(), dport), local_address: None, meta: PacketMeta::default() };
                let r = self.host.sockets.get_mut::<udp::Socket>(h).send_slice(&pl, meta).is_ok();
                (r, Expected { proto: ip::PROTO_UDP, src: None, dst, hop, body: Body::Udp { sport: self.socks[si].port, dport, payload: pl } })
            }
            EKind::Icmp => {
                let reply = self.rng.chance(1, 4);
                let msg = iicmp::build4(if reply { iicmp::V4_ECHO_REPLY } else { iicmp::V4_ECHO_REQUEST }, 0, self.socks[si].ident, (n as u16) & 0x7fff, &pl);
                let r = self.host.sockets.get_mut::<icmp::Socket>(h).send_slice(&msg, dst.to_smol()).is_ok();
                (r, Expected { proto: ip::PROTO_ICMP, src: None, dst, hop, body: Body::Icmp { msg } })
            }
            EKind::Raw => {
                let hop = self.rng.range(1, 255) as u8;
                let (Addr::V4(s), Addr::V4(d)) = (host_addr(false), dst) else { unreachable!() };
                let pkt = ip::build_v4(&s, &d, self.socks[si].proto, hop, self.rng.u16(), false, false, 0, &pl);
                let r = self.host.sockets.get_mut::<raw::Socket>(h).send_slice(&pkt).is_ok();
                (r, Expected { proto: self.socks[si].proto, src: Some(host_addr(false)), dst, hop, body: Body::Raw { payload: pl } })
            }
        };
        let fits = total <= self.cfg.ip_mtu || total <= FRAGMENTATION_BUFFER_SIZE;
        self.log(format!("sock#{} {} send #{}: IP length {} to {} = {}", si, kind.name(), n, total, dst, if ok { "accepted" } else { "refused (buffer full)" }));
        if ok {
            self.accepted += 1;
            if !fits {
                self.too_big += 1;
            }
            let per = ((self.cfg.ip_mtu - 20) & !7).max(8);
            let nfr = if total <= self.cfg.ip_mtu { 1 } else { (total - 20 + per - 1) / per };
            self.out.class(format!(
                "tx:{}:mtu{}:{}:frags{}",
                kind.name(),
                mtu_class(self.cfg.ip_mtu),
                if !fits { "beyond-buffer" } else if total == FRAGMENTATION_BUFFER_SIZE { "=buffer" } else if total <= self.cfg.ip_mtu { "fits-mtu" } else { "fragmented" },
                if nfr > 8 { "9+".to_string() } else { nfr.to_string() }
            ));
            let at = self.now;
            self.exp.push(ExpRec { label: format!("send #{} of sock#{} ({}, IP length {})", n, si, kind.name(), total), exp, fits, obligatory: true, matched: false, at });
        } else {
            self.refused += 1;
        }
    }

    /// A large echo request arrives (fragmented by the peer); the stack answers with a reply of the same size.
    fn step_echo_request(&mut self, single: bool) {
        let max = REASSEMBLY_BUFFER_SIZE.min(FRAGMENTATION_BUFFER_SIZE + 40);
        let mut total = self.pick_len(8);
        if total > max {
            total = self.rng.urange(28, max);
        }
        let plen = total - 28;
        let n = self.n_in;
        self.n_in += 1;
        let pi = self.rng.usize_below(3);
        let peer = peers()[pi].clone();
        let pl = payload(self.tag ^ 0xEC, 99, n, plen);
        let ident = 0x6000 + (n as u16 & 0xff);
        let seq = SEQ_INBOUND | (n as u16 & 0x7fff);
        let req = iicmp::build4(iicmp::V4_ECHO_REQUEST, 0, ident, seq, &pl);
        let inb = Inbound { src: peer.v4, dst: host_addr(false), proto: ip::PROTO_ICMP, hop: 64, l4: req, src_mac: peer.link_mac() };
        // the peer's path MTU differs from ours now and then
        let path = if self.rng.bool() { self.cfg.ip_mtu } else { self.rng.urange(68, 1500) };
        let cuts = frag4::cuts_for_mtu(inb.l4.len(), 20, path).unwrap_or_default();
        let ipid = self.next_ident;
        self.next_ident = self.next_ident.wrapping_add(1);
        let frames = match frames_for(&self.cfg, &inb, ipid, &cuts) {
            Ok(f) => f,
            Err(e) => {
                self.out.harness_errors.push(format!("cannot build echo request: {}", e));
                return;
            }
        };
        let nfr = frames.len();
        for f in frames {
            self.host.dev.rx.push_back(f);
        }
        let rep = iicmp::build4(iicmp::V4_ECHO_REPLY, 0, ident, seq, &pl);
        let fits = total <= self.cfg.ip_mtu || total <= FRAGMENTATION_BUFFER_SIZE;
        // the reply is owed only when the stack can reach the requester without asking
        // (answers are not queued while a neighbor is being resolved)
        let known = !self.cfg.ethernet || (self.announced[pi] && self.now < 40_000_000);
        let obligatory = single && known && total - 20 <= REASSEMBLY_BUFFER_SIZE;
        self.log(format!(
            "echo request #{} from {}: IP length {} in {} fragment(s) (peer path MTU {}){}",
            n,
            peer.v4,
            total,
            nfr,
            path,
            if obligatory { "" } else { " [reply optional]" }
        ));
        self.replies_expected += 1;
        self.out.class(format!("tx:echo-reply:mtu{}:{}", mtu_class(self.cfg.ip_mtu), if total <= self.cfg.ip_mtu { "fits-mtu" } else if fits { "fragmented" } else { "beyond-buffer" }));
        let at = self.now;
        self.exp.push(ExpRec {
            label: format!("echo reply #{} to {} (IP length {})", n, peer.v4, total),
            exp: Expected { proto: ip::PROTO_ICMP, src: Some(host_addr(false)), dst: peer.v4, hop: 64, body: Body::Icmp { msg: rep } },
            fits,
            obligatory,
            matched: false,
            at,
        });
    }

    fn do_poll(&mut self) {
        for f in self.net.due(self.now) {
            self.host.dev.rx.push_back(f);
        }
        let blocked = self.host.dev.blocked;
        self.polls += 1;
        if blocked {
            self.polls_blocked += 1;
        }
        let mut rounds = 0;
        loop {
            let out = self.host.poll(self.now);
            if self.host.dev.tx_cap_hit {
                self.caps_hit += 1;
                self.host.dev.tx_cap_hit = false;
            }
            let (nt, nr) = (out.tx.len(), out.rx_count);
            for t in out.tx {
                let f = classify(&self.cfg, &t.data);
                match &f {
                    Frame::Arp(..) | Frame::Nd(..) => {
                        self.net.on_frame(self.now, &f, &mut *self.rng);
                    }
                    Frame::Ip(eh, pkt) => self.wire.on_ip(eh.as_ref(), pkt),
                    Frame::Bad(k, m) => {
                        let (k, m) = (k.to_string(), m.clone());
                        self.violate(format!("egress:{}", k), format!("transmitted frame {}: {}", hex_cap(&t.data, 64), m));
                    }
                }
            }
            if self.verbose {
                println!("[{:>10}us] poll{}: rx {} tx {}", self.now, if blocked { " (device blocked)" } else { "" }, nr, nt);
            }
            rounds += 1;
            if blocked || self.host.dev.rx.is_empty() || rounds > 300 {
                break;
            }
        }
        for d in self.wire.ready(false) {
            if self.out.violations.is_empty() {
                self.on_wire(d);
            }
        }
        let defects = std::mem::take(&mut self.wire.defects);
        for d in defects {
            self.violate(format!("egress:{}", d.kind), format!("frame #{} on the wire: {} ; frame {}", d.idx, d.msg, d.frame_hex));
        }
    }

    fn is_stack_noise(&self, d: &WireDgram) -> bool {
        // ICMP errors (none are provoked here) – everything else is owed to a send or an echo request
        if d.info.proto == ip::PROTO_ICMP {
            if let Ok(m) = iicmp::parse4(d.payload()) {
                return !m.is_echo();
            }
        }
        !d.info.src.is_v4()
    }

    fn on_wire(&mut self, d: WireDgram) {
        self.out.evals += 1;
        if self.is_stack_noise(&d) {
            return;
        }
        let hit = self.exp.iter().position(|r| !r.matched && compare(&r.exp, &d).is_ok());
        if let Some(i) = hit {
            self.exp[i].matched = true;
            if self.verbose {
                println!("      wire datagram frames {}..{} in {} fragment(s) = {}", d.first_idx, d.last_idx, d.pieces.len(), self.exp[i].label);
            }
            if !self.exp[i].fits {
                let l = self.exp[i].label.clone();
                self.violate("egress:beyond-buffer-transmitted".into(), format!("{} is larger than the fragmentation buffer and yet appeared", l));
            }
            self.out.count("egress_datagrams_complete_and_exact", 1);
            if d.fragmented() {
                self.out.count("egress_fragmented_datagrams_reassembled", 1);
                self.out.count("egress_fragments_validated", d.pieces.len() as u64);
            }
            return;
        }
        // which expectation does it resemble?  (payload prefix is keyed by socket and number)
        let near = self.exp.iter().position(|r| {
            let (a, b): (Vec<u8>, &[u8]) = match &r.exp.body {
                Body::Udp { payload, .. } => (payload.clone(), if d.payload().len() >= 8 { &d.payload()[8..] } else { &[] }),
                Body::Icmp { msg } => (msg[4..].to_vec(), if d.payload().len() >= 4 { &d.payload()[4..] } else { &[] }),
                Body::Raw { payload } => (payload.clone(), d.payload()),
            };
            let k = a.len().min(b.len()).min(12);
            r.exp.proto == d.info.proto && k >= 4 && a[..k] == b[..k]
        });
        match near {
            Some(i) => {
                let already = self.exp[i].matched;
                let label = self.exp[i].label.clone();
                let (mut field, why) = match compare(&self.exp[i].exp, &d) {
                    Err(x) => x,
                    Ok(()) => ("duplicated".into(), "it was already transmitted completely once".into()),
                };
                if already && compare(&self.exp[i].exp, &d).is_ok() {
                    field = "duplicated".into();
                }
                if field == "icmp-checksum" && d.fragmented() {
                    field = "icmp-checksum-of-fragmented-message".into();
                }
                self.exp[i].matched = true;
                self.violate(
                    format!("egress:datagram:{}", field),
                    format!("reassembled wire datagram ({} bytes in {} fragment(s), frames {}..{}) {} is {} but: {}", d.packet.len(), d.pieces.len(), d.first_idx, d.last_idx, hex_cap(&d.packet, 64), label, why),
                );
            }
            None => self.violate(
                "egress:datagram:unknown".into(),
                format!("reassembled wire datagram ({} bytes in {} fragment(s)) {} matches nothing the stack was given", d.packet.len(), d.pieces.len(), hex_cap(&d.packet, 64)),
            ),
        }
    }

    /// Polls with random back-pressure until `done` or the budget is used up.
    fn churn(&mut self, budget: usize, until_all_matched: bool) {
        for _ in 0..budget {
            match self.rng.below(12) {
                0 => {
                    self.host.dev.blocked = !self.host.dev.blocked;
                    let b = self.host.dev.blocked;
                    self.log(format!("device {}", if b { "BLOCKED" } else { "unblocked" }));
                }
                1 => {
                    let cap = *self.rng.pick(&[1usize, 1, 2, 3, 5, 40_000]);
                    self.host.dev.tx_cap = cap;
                    self.log(format!("token cap {}", cap));
                }
                _ => {}
            }
            self.now += match self.rng.below(4) {
                0 => 0,
                1 => self.rng.range(1, 500) as Micros,
                2 => self.rng.range(500, 20_000) as Micros,
                _ => self.rng.range(20_000, 300_000) as Micros,
            };
            self.do_poll();
            if until_all_matched && self.exp.iter().all(|r| r.matched || !r.fits || !r.obligatory) && self.wire.reasm.pending() == 0 && self.host.dev.rx.is_empty() {
                break;
            }
        }
    }

    fn quiesce(&mut self) -> usize {
        self.host.dev.blocked = false;
        self.host.dev.tx_cap = 40_000;
        self.net.delay = (0, 0);
        for r in self.net.replies.iter_mut() {
            r.0 = self.now;
        }
        let mut idle = 0;
        let mut rounds = 0;
        while idle < 6 && rounds < 600 {
            rounds += 1;
            let before = (self.wire.idx, self.net.answered);
            self.do_poll();
            if (self.wire.idx, self.net.answered) != before || !self.net.replies.is_empty() {
                idle = 0;
                self.now += self.rng.range(0, 5_000) as Micros;
            } else {
                idle += 1;
                self.now += self.rng.range(150_000, 1_300_000) as Micros;
            }
        }
        if rounds >= 600 {
            self.out.harness_errors.push("quiescence not reached in 600 polls".into());
        }
        // C12 does not judge the order of datagrams: release what an incomplete series held back
        for d in self.wire.ready(true) {
            if self.out.violations.is_empty() {
                self.on_wire(d);
            }
        }
        rounds
    }

    /// Everything that was accepted must be complete now.
    fn judge(&mut self, rounds: usize) {
        if !self.out.violations.is_empty() {
            return; // the case ends at its first violation
        }
        let partials: Vec<frag4::Partial> = self.wire.reasm.partials.clone();
        let mut explained: Vec<bool> = vec![false; partials.len()];
        for i in 0..self.exp.len() {
            if self.exp[i].matched || !self.exp[i].fits || !self.out.violations.is_empty() {
                continue;
            }
            // did it start?  its first bytes are keyed: find them at offset 0 of an incomplete series
            let l4: Vec<u8> = match &self.exp[i].exp.body {
                Body::Udp { payload, .. } => payload.clone(),
                Body::Icmp { msg } => msg[4..].to_vec(),
                Body::Raw { payload } => payload.clone(),
            };
            let skip = match &self.exp[i].exp.body {
                Body::Udp { .. } => 8,
                Body::Icmp { .. } => 4,
                Body::Raw { .. } => 0,
            };
            let started = partials.iter().position(|p| {
                let k = l4.len().min(8);
                p.key.proto == self.exp[i].exp.proto
                    && Addr::V4(p.key.dst) == self.exp[i].exp.dst
                    && p.have.len() >= skip + k
                    && p.have[..skip + k].iter().all(|b| *b)
                    && p.data[skip..skip + k] == l4[..k]
            });
            let label = self.exp[i].label.clone();
            let at = self.exp[i].at;
            match started {
                Some(pi) => {
                    explained[pi] = true;
                    let p = &partials[pi];
                    // another fragmented datagram began while this one still had fragments to send?
                    let intruder = self.wire.frag_log.iter().find(|(idx, k, off, _, _)| *idx > p.first_idx && *k != p.key && *off == 0).cloned();
                    let desc = format!(
                        "{} (queued at t={}us) began transmission but is incomplete after {} polls of quiescence (device free): {}",
                        label,
                        at,
                        rounds,
                        p.describe()
                    );
                    match intruder {
                        Some((idx, k, _, len, _)) => {
                            let who = self
                                .exp
                                .iter()
                                .find(|r| r.matched && r.exp.proto == k.proto && Addr::V4(k.dst) == r.exp.dst && r.exp.ip_len() > self.cfg.ip_mtu)
                                .map(|r| r.label.clone())
                                .unwrap_or_else(|| "another fragmented datagram".into());
                            self.violate(
                                "egress:fragmenter-overwritten-while-busy".into(),
                                format!("{} ; at wire frame #{} the first fragment ({} payload bytes) of {} [{}] was sent while the earlier datagram still had fragments to send, and the earlier one never continued", desc, idx, len, k, who),
                            )
                        }
                        None => self.violate("egress:fragments-incomplete".into(), desc),
                    }
                }
                None => {
                    if self.exp[i].obligatory {
                        self.violate(
                            "egress:datagram-never-transmitted".into(),
                            format!("{} (accepted at t={}us) fits the fragmentation buffer but no fragment of it appeared in {} polls of quiescence", label, at, rounds),
                        );
                    }
                }
            }
        }
        for (pi, p) in partials.iter().enumerate() {
            if !explained[pi] && self.out.violations.is_empty() {
                self.violate("egress:fragments-incomplete:unexplained".into(), format!("incomplete fragment series on the wire that matches no accepted datagram: {}", p.describe()));
            }
        }
    }
}

fn egress_case(b2b: bool, idx: u64, rng: &mut Rng, ctx: &Ctx) -> CaseOut {
    let ethernet = rng.bool();
    let ip_mtu = match rng.below(8) {
        0 => 68,
        1 => rng.urange(68, 99),
        2 => rng.urange(100, 299),
        3 => rng.urange(300, 575),
        4 => 576,
        5 => rng.urange(577, 1279),
        6 => rng.urange(1280, 1499),
        _ => 1500,
    };
    let cfg = NetCfg { ethernet, ip_mtu };
    let tag = rng.next_u64();
    let host = make_host(&cfg, rng.next_u64(), 0);
    let mut net = Net::new(cfg.clone());
    if rng.chance(1, 4) {
        net.delay = (1_000, 400_000);
    }
    let mut wire = Wire::new(cfg.clone());
    wire.trace = ctx.verbose;
    let mut e = Eg {
        out: CaseOut::default(),
        rng,
        verbose: ctx.verbose,
        tag,
        cfg: cfg.clone(),
        host,
        net,
        wire,
        now: 0,
        socks: Vec::new(),
        exp: Vec::new(),
        hist: Vec::new(),
        announced: vec![false; 3],
        next_ident: 0x2000,
        n_in: 0,
        accepted: 0,
        refused: 0,
        replies_expected: 0,
        too_big: 0,
        polls: 0,
        polls_blocked: 0,
        caps_hit: 0,
    };
    e.host.dev.prefill = e.rng.u8();
    let nsock = if b2b { e.rng.urange(1, 3) } else { 1 };
    for i in 0..nsock {
        let kind = *e.rng.pick(&[EKind::Udp, EKind::Udp, EKind::Icmp, EKind::Raw]);
        let slots = e.rng.urange(2, 8);
        let bytes = (FRAGMENTATION_BUFFER_SIZE + 128) * e.rng.urange(1, 4);
        let hop = if e.rng.bool() { 64 } else { e.rng.range(1, 255) as u8 };
        let handle = match kind {
            EKind::Udp => {
                let mut s = udp::Socket::new(
                    udp::PacketBuffer::new(vec![udp::PacketMetadata::EMPTY; 2], vec![0u8; 256]),
                    udp::PacketBuffer::new(vec![udp::PacketMetadata::EMPTY; slots], vec![0u8; bytes]),
                );
                if hop != 64 {
                    s.set_hop_limit(Some(hop));
                }
                let _ = s.bind(IpListenEndpoint { addr: None, port: 5000 + i as u16 });
                e.host.sockets.add(s)
            }
            EKind::Icmp => {
                let mut s = icmp::Socket::new(
                    icmp::PacketBuffer::new(vec![icmp::PacketMetadata::EMPTY; 2], vec![0u8; 256]),
                    icmp::PacketBuffer::new(vec![icmp::PacketMetadata::EMPTY; slots], vec![0u8; bytes]),
                );
                if hop != 64 {
                    s.set_hop_limit(Some(hop));
                }
                let _ = s.bind(icmp::Endpoint::Ident(0x4000 + i as u16));
                e.host.sockets.add(s)
            }
            EKind::Raw => e.host.sockets.add(raw::Socket::new(
                Some(IpVersion::Ipv4),
                Some(IpProtocol::from(200 + i as u8)),
                raw::PacketBuffer::new(vec![raw::PacketMetadata::EMPTY; 2], vec![0u8; 256]),
                raw::PacketBuffer::new(vec![raw::PacketMetadata::EMPTY; slots], vec![0u8; bytes]),
            )),
        };
        e.socks.push(ESock { kind, handle, port: 5000 + i as u16, ident: 0x4000 + i as u16, proto: 200 + i as u8, hop, next_n: 0 });
    }
    // most peers (and the gateway, via an announcement of the off-link peer's first hop) are known beforehand
    if ethernet {
        let ps = peers();
        for p in 0..3 {
            if e.rng.chance(3, 4) {
                let f = if ps[p].on_link {
                    e.net.announce(&ps[p], false)
                } else {
                    let gw = Peer { name: "GW", v4: gw_addr(false), v6: gw_addr(true), mac: GW_MAC, on_link: true, resolves: true };
                    e.net.announce(&gw, false)
                };
                e.host.dev.rx.push_back(f);
                e.announced[p] = true;
            }
        }
        e.do_poll();
    } else {
        e.announced = vec![true; 3];
    }
    let mut kinds_bp = String::new();
    if !b2b {
        // ---- one datagram at a time
        let n = e.rng.urange(1, 5);
        for _ in 0..n {
            if e.rng.chance(1, 4) {
                e.step_echo_request(true);
            } else {
                let si = e.rng.usize_below(e.socks.len());
                e.step_send(si, true);
            }
            let budget = e.rng.urange(4, 40);
            e.churn(budget, true);
            // let it finish before the next one is offered (the fragmenter is never busy when a datagram arrives)
            let r = e.quiesce();
            e.judge(r);
            e.exp.clear();
            if !e.out.violations.is_empty() {
                break;
            }
        }
    } else {
        // ---- several in a row, polls in between at random
        let n = e.rng.urange(2, 9);
        for _ in 0..n {
            if !e.out.violations.is_empty() {
                break;
            }
            match e.rng.below(10) {
                0..=5 => {
                    let si = e.rng.usize_below(e.socks.len());
                    e.step_send(si, true);
                }
                6 => e.step_echo_request(false),
                7 => {
                    let si = e.rng.usize_below(e.socks.len());
                    e.step_send(si, false);
                }
                _ => {
                    let b = e.rng.urange(1, 3);
                    e.churn(b, false);
                }
            }
        }
        let b = e.rng.urange(0, 12);
        e.churn(b, false);
        let r = e.quiesce();
        e.judge(r);
    }
    if e.polls_blocked > 0 {
        kinds_bp.push_str("blocked");
    }
    if e.caps_hit > 0 {
        kinds_bp.push_str("+capped");
    }
    e.out.class(format!("bp:{}:{}", if b2b { "b2b" } else { "single" }, if kinds_bp.is_empty() { "none" } else { &kinds_bp }));
    let mut out = std::mem::take(&mut e.out);
    out.count("egress_cases", 1);
    out.count("egress_datagrams_accepted", e.accepted);
    out.count("egress_sends_refused", e.refused);
    out.count("egress_echo_requests", e.replies_expected);
    out.count("egress_beyond_buffer", e.too_big);
    out.count("egress_polls", e.polls);
    out.count("egress_polls_blocked", e.polls_blocked);
    out.count("egress_token_cap_hit", e.caps_hit);
    out.count("egress_wire_fragments", e.wire.fragments);
    if e.wire.max_frags >= 9 {
        out.count("egress_datagrams_with_9+_fragments", 1);
    }
    if idx == 0 {
        out.sample = Some(Json::obj().set("link", Json::s(format!("{:?}", cfg))).set("history", Json::Arr(e.hist.iter().take(30).map(|s| Json::s(s.clone())).collect())));
    }
    out
}

pub fn egress_single(i: u64, r: &mut Rng, c: &Ctx) -> CaseOut {
    egress_case(false, i, r, c)
}
pub fn egress_b2b(i: u64, r: &mut Rng, c: &Ctx) -> CaseOut {
    egress_case(true, i, r, c)
}

// ================================================================== ingress

fn factorial(k: usize) -> u64 {
    (1..=k as u64).product()
}

/// Number of (permutation, single duplication) combinations for k fragments:
/// k! orders x (no duplicate | duplicate of fragment f inserted at position p of the k+1 positions).
fn combos_for(k: usize) -> u64 {
    factorial(k) * (1 + (k * (k + 1)) as u64)
}

fn nth_perm(k: usize, mut n: u64) -> Vec<usize> {
    let mut items: Vec<usize> = (0..k).collect();
    let mut out = Vec::new();
    for i in (1..=k).rev() {
        let f = factorial(i - 1);
        let j = (n / f) as usize;
        n %= f;
        out.push(items.remove(j));
    }
    out
}

/// Decode combination number `c` (over k = 2..=kmax) into (k, arrival sequence of fragment indices).
fn decode_combo(kmax: usize, mut c: u64) -> (usize, Vec<usize>, bool) {
    for k in 2..=kmax {
        let n = combos_for(k);
        if c < n {
            let per = 1 + (k * (k + 1)) as u64;
            let perm = nth_perm(k, c / per);
            let d = c % per;
            let mut seq = perm;
            let mut dup = false;
            if d > 0 {
                let d = (d - 1) as usize;
                let frag = d / (k + 1);
                let pos = d % (k + 1);
                seq.insert(pos, frag);
                dup = true;
            }
            return (k, seq, dup);
        }
        c -= n;
    }
    unreachable!()
}

fn total_combos(kmax: usize) -> u64 {
    (2..=kmax).map(combos_for).sum()
}

/// number of maximal runs in a sorted list of byte ranges after adding (o,l)
fn add_range(ranges: &mut Vec<(usize, usize)>, o: usize, l: usize) {
    if l == 0 {
        return;
    }
    ranges.push((o, o + l));
    ranges.sort();
    let mut merged: Vec<(usize, usize)> = Vec::new();
    for r in ranges.iter() {
        match merged.last_mut() {
            Some(m) if r.0 <= m.1 => m.1 = m.1.max(r.1),
            _ => merged.push(*r),
        }
    }
    *ranges = merged;
}

fn ingress_run(part: &'static str, k: usize, seq: Vec<usize>, order_kind: &'static str, idx: u64, rng: &mut Rng, ctx: &Ctx) -> CaseOut {
    let mut out = CaseOut::default();
    let ethernet = rng.bool();
    let cfg = NetCfg { ethernet, ip_mtu: 1500 };
    let mut host = make_host(&cfg, rng.next_u64(), 0);
    let tag = rng.next_u64();
    // ---- the datagram: k fragments, non-final ones multiples of 8
    let big = rng.chance(1, 12);
    let mut sizes: Vec<usize> = Vec::new();
    for i in 0..k {
        let last = i == k - 1;
        let s = if last {
            rng.urange(1, 64)
        } else if big {
            8 * rng.urange(1, 60)
        } else {
            8 * match rng.below(3) {
                0 => 1,
                1 => rng.urange(1, 4),
                _ => rng.urange(1, if k > 16 { 3 } else { 20 }),
            }
        };
        sizes.push(s);
    }
    // the UDP header must lie inside the first fragment (it always does: first >= 8)
    let l4len: usize = sizes.iter().sum();
    if l4len < 9 {
        sizes[k - 1] += 9 - l4len;
    }
    let l4len: usize = sizes.iter().sum();
    let peer = peers()[rng.usize_below(3)].clone();
    let with_ck = !rng.chance(1, 3);
    let sport = 9000 + rng.range(0, 99) as u16;
    let dst = match rng.below(8) {
        0 => LIMITED_BROADCAST,
        1 => SUBNET_BROADCAST,
        _ => host_addr(false),
    };
    let pl = payload(tag, 0, 0, l4len - 8);
    let l4 = iudp::build(&peer.v4, &dst, sport, 5000, &pl, with_ck);
    let inb = Inbound { src: peer.v4, dst, proto: ip::PROTO_UDP, hop: rng.range(1, 255) as u8, l4, src_mac: peer.link_mac() };
    let mut cuts = Vec::new();
    let mut o = 0;
    for s in &sizes[..k - 1] {
        o += s;
        cuts.push(o);
    }
    // one datagram in four travels with IPv4 options in every fragment header (NOPs and an end
    // marker, or the copied Router Alert option): the header is then 24 or 28 octets long
    let opts: &[u8] = match rng.below(8) {
        0 => &[0x01, 0x01, 0x01, 0x00],
        1 => &[0x94, 0x04, 0x00, 0x00, 0x01, 0x01, 0x01, 0x00],
        _ => &[],
    };
    if !opts.is_empty() {
        out.count("ingress_datagrams_with_ipv4_options", 1);
    }
    let ident_b = rng.u16();
    let frames = match crate::sim::dgram::frames_for_opts(&cfg, &inb, ident_b, &cuts, opts) {
        Ok(f) => f,
        Err(e) => {
            out.harness_errors.push(format!("cannot fragment: {} (sizes {:?})", e, sizes));
            return out;
        }
    };
    if frames.len() != k {
        out.harness_errors.push(format!("expected {} fragments, built {}", k, frames.len()));
        return out;
    }
    // ---- the receiver
    let sniff = rng.chance(1, 3);
    let rx_bytes = l4len + rng.urange(0, 64);
    let mut us = udp::Socket::new(
        udp::PacketBuffer::new(vec![udp::PacketMetadata::EMPTY; 4], vec![0u8; 3 * rx_bytes]),
        udp::PacketBuffer::new(vec![udp::PacketMetadata::EMPTY; 1], vec![0u8; 16]),
    );
    let _ = us.bind(IpListenEndpoint { addr: None, port: 5000 });
    let uh = host.sockets.add(us);
    let rh = if sniff {
        Some(host.sockets.add(raw::Socket::new(
            Some(IpVersion::Ipv4),
            Some(IpProtocol::Udp),
            raw::PacketBuffer::new(vec![raw::PacketMetadata::EMPTY; 4], vec![0u8; 3 * (rx_bytes + 20)]),
            raw::PacketBuffer::new(vec![raw::PacketMetadata::EMPTY; 1], vec![0u8; 16]),
        )))
    } else {
        None
    };
    // ---- own model of the arrival order
    let mut offs = vec![0usize];
    for s in &sizes {
        offs.push(offs.last().unwrap() + s);
    }
    let mut ranges: Vec<(usize, usize)> = Vec::new();
    let mut max_ranges = 0usize;
    let mut complete_at: Option<usize> = None;
    let mut seen = vec![0usize; k];
    for (pos, f) in seq.iter().enumerate() {
        seen[*f] += 1;
        if complete_at.is_none() {
            add_range(&mut ranges, offs[*f], sizes[*f]);
            max_ranges = max_ranges.max(ranges.len());
            if ranges.len() == 1 && ranges[0] == (0, l4len) && seen[k - 1] > 0 {
                complete_at = Some(pos);
            }
        }
    }
    let copies = *seen.iter().min().unwrap();
    let fits = l4len <= REASSEMBLY_BUFFER_SIZE;
    let must = complete_at.is_some() && max_ranges <= ASSEMBLER_MAX_SEGMENT_COUNT && fits;
    // ---- play it
    let one_poll = rng.bool();
    let mut now: Micros = rng.range(0, 1_000_000) as Micros;
    let mut trace = Vec::new();
    // ---- one case in four: the reassembly slot has a history (seeded change C12-r10-1).  Some, not
    // all, fragments of an earlier datagram arrive, the reassembly timeout (60 s) passes, a poll
    // runs - and only then the datagram under test arrives.  The earlier datagram never completes,
    // so the oracle below is unchanged: what it left behind must not matter.
    let mut prng = Rng::new(tag ^ 0x51ee_d012);
    if prng.chance(1, 4) {
        let ka = prng.urange(2, 6);
        let mut sizes_a: Vec<usize> = (0..ka - 1).map(|_| 8 * prng.urange(1, 30)).collect();
        sizes_a.push(prng.urange(1, 64));
        let la: usize = sizes_a.iter().sum();
        let pl_a = payload(tag, 1, 0, la - 8);
        let sport_a = if prng.bool() { sport } else { 9100 + prng.range(0, 99) as u16 };
        let l4a = iudp::build(&peer.v4, &host_addr(false), sport_a, 5000, &pl_a, true);
        let inb_a = Inbound { src: peer.v4, dst: host_addr(false), proto: ip::PROTO_UDP, hop: 64, l4: l4a, src_mac: peer.link_mac() };
        let mut cuts_a = Vec::new();
        let mut oa = 0;
        for s in &sizes_a[..ka - 1] {
            oa += s;
            cuts_a.push(oa);
        }
        let ident_a = ident_b.wrapping_add(1 + prng.below(1000) as u16);
        match crate::sim::dgram::frames_for_opts(&cfg, &inb_a, ident_a, &cuts_a, &[]) {
            Ok(fa) if fa.len() == ka => {
                // a strict, non-empty subset in a random order
                let mut idxs: Vec<usize> = (0..ka).collect();
                let drop = prng.usize_below(ka);
                idxs.remove(drop);
                while idxs.len() > 1 && prng.chance(1, 3) {
                    let d = prng.usize_below(idxs.len());
                    idxs.remove(d);
                }
                for i in (1..idxs.len()).rev() {
                    let j = prng.usize_below(i + 1);
                    idxs.swap(i, j);
                }
                for i in &idxs {
                    host.dev.rx.push_back(fa[*i].clone());
                    trace.push(format!("earlier-datagram-frag{}of{}", i, ka));
                    host.poll(now);
                    now += prng.range(0, 2_000) as Micros;
                }
                now += prng.range(61_000_000, 300_000_000) as Micros;
                host.poll(now);
                trace.push("(reassembly-timeout-passed,poll)".into());
                out.count("ingress_cases_after_an_expired_partial_datagram", 1);
            }
            Ok(_) => {}
            Err(e) => out.harness_errors.push(format!("cannot fragment the earlier datagram: {}", e)),
        }
    }
    for f in &seq {
        host.dev.rx.push_back(frames[*f].clone());
        trace.push(format!("frag{}[{}..{})", f, offs[*f], offs[*f] + sizes[*f]));
        if !one_poll {
            host.poll(now);
            now += rng.range(0, 2_000) as Micros;
        }
    }
    host.poll(now);
    if ctx.verbose {
        println!(
            "datagram: UDP {}:{} -> {}:5000, {} L4 bytes in {} fragments {:?}, checksum {}; arrival order: {} ; model: max {} ranges (limit {}), complete at arrival {:?}, fits reassembly buffer: {} => {}",
            peer.v4,
            sport,
            dst,
            l4len,
            k,
            sizes,
            if with_ck { "set" } else { "zero" },
            trace.join(" "),
            max_ranges,
            ASSEMBLER_MAX_SEGMENT_COUNT,
            complete_at,
            fits,
            if must { "MUST be delivered" } else { "may be delivered" }
        );
    }
    let describe = |what: &str| -> String {
        format!(
            "{} ; UDP {}:{} -> {}:5000 with {} L4 bytes (checksum {}) cut into {} fragments of {:?} bytes, arrival order [{}] ({}), own model: at most {} separate ranges (limit {}), complete after arrival #{:?}, medium {}",
            what,
            peer.v4,
            sport,
            dst,
            l4len,
            if with_ck { "set" } else { "zero" },
            k,
            sizes,
            trace.join(" "),
            if one_poll { "all in one poll" } else { "one poll per fragment" },
            max_ranges,
            ASSEMBLER_MAX_SEGMENT_COUNT,
            complete_at,
            if ethernet { "ethernet" } else { "ip" }
        )
    };
    // ---- judge the UDP socket
    let mut deliveries = 0usize;
    loop {
        let s = host.sockets.get_mut::<udp::Socket>(uh);
        match s.recv() {
            Ok((data, meta)) => {
                deliveries += 1;
                out.evals += 1;
                let data = data.to_vec();
                if data != pl {
                    let first = data.iter().zip(pl.iter()).position(|(a, b)| a != b).unwrap_or(data.len().min(pl.len()));
                    out.violate(Violation::new(
                        "ingress:reassembled-payload-differs",
                        describe(&format!("the socket returned {} bytes {} but the original payload has {} bytes {} (first difference at offset {})", data.len(), hex_cap(&data, 32), pl.len(), hex_cap(&pl, 32), first)),
                    ));
                }
                if Addr::from_smol(meta.endpoint.addr) != peer.v4 || meta.endpoint.port != sport || meta.local_address.map(Addr::from_smol) != Some(dst) {
                    out.violate(Violation::new("ingress:reassembled-metadata-differs", describe(&format!("metadata {:?} does not name the sender / destination", meta))));
                }
                if deliveries > 8 {
                    break;
                }
            }
            Err(_) => break,
        }
    }
    out.evals += 1;
    if deliveries > copies.max(1) || (deliveries > 0 && complete_at.is_none()) {
        out.violate(Violation::new("ingress:delivered-more-often-than-sent", describe(&format!("{} deliveries although only {} complete cop(ies) of the fragments arrived", deliveries, copies))));
    }
    if must && deliveries == 0 {
        out.violate(Violation::new("ingress:not-reassembled", describe("nothing was delivered although every fragment arrived and the assembler never needed more ranges than configured")));
    }
    // ---- the raw observer sees the reassembled packet
    if let Some(rh) = rh {
        let s = host.sockets.get_mut::<raw::Socket>(rh);
        let mut n = 0;
        while let Ok(d) = s.recv() {
            n += 1;
            out.evals += 1;
            let d = d.to_vec();
            match ip::parse_v4(&d, true) {
                Ok(i) => {
                    if d[i.payload_off..] != inb.l4[..] || i.src != inb.src || i.dst != inb.dst || i.proto != ip::PROTO_UDP || i.hop_limit != inb.hop {
                        out.violate(Violation::new("ingress:raw-reassembled-packet-differs", describe(&format!("the raw socket returned {} which is not the original packet", hex_cap(&d, 48)))));
                    }
                }
                Err(e) => out.violate(Violation::new("ingress:raw-reassembled-packet-differs", describe(&format!("the raw socket returned a malformed packet: {}", e)))),
            }
            if n > 8 {
                break;
            }
        }
        if n != deliveries {
            out.violate(Violation::new("ingress:raw-and-udp-disagree", describe(&format!("raw observer saw {} reassembled packets, the UDP socket {}", n, deliveries))));
        }
    }
    out.count("ingress_cases", 1);
    out.count("ingress_fragments_delivered", seq.len() as u64);
    if must {
        out.count("ingress_obligatory_deliveries_checked", 1);
    }
    if deliveries > 0 {
        out.count("ingress_datagrams_delivered_and_compared", deliveries as u64);
    } else {
        out.count("ingress_nothing_delivered", 1);
    }
    if max_ranges > ASSEMBLER_MAX_SEGMENT_COUNT {
        out.count("ingress_orders_beyond_the_range_limit", 1);
    }
    if !fits {
        out.count("ingress_beyond_reassembly_buffer", 1);
    }
    out.class(format!(
        "rx:{}:k{}:{}:ranges{}:{}:{}:{}",
        part,
        if k > 12 { "13+".to_string() } else { k.to_string() },
        order_kind,
        max_ranges.min(9),
        if with_ck { "ck" } else { "nock" },
        if must { "must" } else { "may" },
        if deliveries > 0 { "delivered" } else { "nothing" }
    ));
    if idx == 0 {
        out.sample = Some(Json::obj().set("arrival_order", Json::s(trace.join(" "))).set("sizes", Json::s(format!("{:?}", sizes))).set("delivered", Json::u(deliveries as u64)));
    }
    out
}

const PERM_VARIANTS_QUICK: u64 = 150;
const PERM_VARIANTS_THOROUGH: u64 = 300;

fn perm_kmax(ctx: &Ctx) -> usize {
    if ctx.thorough() {
        5
    } else {
        4
    }
}

fn ingress_perm(idx: u64, rng: &mut Rng, ctx: &Ctx) -> CaseOut {
    let kmax = perm_kmax(ctx);
    let n = total_combos(kmax);
    let (k, seq, dup) = decode_combo(kmax, idx % n);
    let mut out = ingress_run("perm", k, seq, if dup { "perm+dup" } else { "perm" }, idx, rng, ctx);
    if idx < n {
        out.count("ingress_perm_combinations", 1);
    }
    out
}

fn ingress_sampled(idx: u64, rng: &mut Rng, ctx: &Ctx) -> CaseOut {
    let mut k = rng.urange(2, 12);
    if ASSEMBLER_MAX_SEGMENT_COUNT > 5 && rng.chance(1, 3) {
        // a large range table only binds with many fragments
        k = rng.urange(2 * ASSEMBLER_MAX_SEGMENT_COUNT - 4, 2 * ASSEMBLER_MAX_SEGMENT_COUNT + 6);
    }
    let mut seq: Vec<usize> = (0..k).collect();
    let kind = match rng.below(5) {
        0 => "in-order",
        1 => {
            seq.reverse();
            "reverse"
        }
        2 => {
            // evens then odds: as many separate ranges as possible
            seq = (0..k).step_by(2).chain((1..k).step_by(2)).collect();
            "comb"
        }
        _ => {
            rng.shuffle(&mut seq);
            "shuffled"
        }
    };
    // duplications anywhere (also after completion, also whole second copies)
    let ndup = match rng.below(4) {
        0 => 0,
        1 => 1,
        2 => rng.urange(1, k),
        _ => rng.urange(k, 2 * k),
    };
    for _ in 0..ndup {
        let f = rng.usize_below(k);
        let p = rng.usize_below(seq.len() + 1);
        seq.insert(p, f);
    }
    ingress_run("sampled", k, seq, kind, idx, rng, ctx)
}

/// Fragments of TWO datagrams of the same sender (different identification) arrive interleaved:
/// whatever is delivered must be one of the two originals, never a mixture.
fn ingress_interleaved(idx: u64, rng: &mut Rng, ctx: &Ctx) -> CaseOut {
    use smoltcp::config::REASSEMBLY_BUFFER_COUNT;
    let mut out = CaseOut::default();
    let ethernet = rng.bool();
    let cfg = NetCfg { ethernet, ip_mtu: 1500 };
    let mut host = make_host(&cfg, rng.next_u64(), 0);
    let tag = rng.next_u64();
    let pi = rng.usize_below(3);
    let peer = peers()[pi].clone();
    // in a third of the cases the two datagrams come from two different hosts that happen to use
    // the same identification: the reassembly key must keep them apart by source address
    let two_senders = rng.chance(1, 3);
    let peer_b = if two_senders { peers()[(pi + 1) % 3].clone() } else { peer.clone() };
    let dst = host_addr(false);
    let id0 = rng.u16();
    struct D {
        pl: Vec<u8>,
        sport: u16,
        frames: Vec<Vec<u8>>,
        offs: Vec<usize>,
        sizes: Vec<usize>,
        l4len: usize,
        ranges: Vec<(usize, usize)>,
        max_ranges: usize,
        seen: Vec<usize>,
        complete: bool,
        delivered: usize,
    }
    let mut ds: Vec<D> = Vec::new();
    for d in 0..2usize {
        let k = rng.urange(2, 5);
        let mut sizes: Vec<usize> = (0..k).map(|i| if i == k - 1 { rng.urange(1, 40) } else { 8 * rng.urange(1, 6) }).collect();
        let l: usize = sizes.iter().sum();
        if l < 9 {
            sizes[k - 1] += 9 - l;
        }
        let l4len: usize = sizes.iter().sum();
        let pl = payload(tag, d, 0, l4len - 8);
        // zero checksum most of the time: a mixture must not be saved by the UDP checksum
        let with_ck = rng.chance(1, 4);
        let sport = 9000 + d as u16;
        let from = if d == 0 { &peer } else { &peer_b };
        let l4 = iudp::build(&from.v4, &dst, sport, 5000, &pl, with_ck);
        let inb = Inbound { src: from.v4, dst, proto: ip::PROTO_UDP, hop: 64, l4, src_mac: from.link_mac() };
        let mut cuts = Vec::new();
        let mut offs = vec![0usize];
        let mut o = 0;
        for s in &sizes[..k - 1] {
            o += s;
            cuts.push(o);
            offs.push(o);
        }
        let frames = match frames_for(&cfg, &inb, if two_senders { id0 } else { id0.wrapping_add(d as u16) }, &cuts) {
            Ok(f) => f,
            Err(e) => {
                out.harness_errors.push(format!("cannot fragment: {}", e));
                return out;
            }
        };
        ds.push(D { pl, sport, frames, offs, sizes, l4len, ranges: Vec::new(), max_ranges: 0, seen: vec![0; k], complete: false, delivered: 0 });
    }
    // arrival order: both fragment sets shuffled, a few duplicates, merged at random
    let mut seq: Vec<(usize, usize)> = Vec::new();
    for d in 0..2 {
        let k = ds[d].sizes.len();
        let mut s: Vec<usize> = (0..k).collect();
        rng.shuffle(&mut s);
        for _ in 0..rng.urange(0, 2) {
            let f = rng.usize_below(k);
            let p = rng.usize_below(s.len() + 1);
            s.insert(p, f);
        }
        // merge keeping each datagram's own order
        let mut merged = Vec::new();
        let (mut a, mut b) = (seq.into_iter().peekable(), s.into_iter().map(|f| (d, f)).peekable());
        while a.peek().is_some() || b.peek().is_some() {
            let take_a = b.peek().is_none() || (a.peek().is_some() && rng.bool());
            merged.push(if take_a { a.next().unwrap() } else { b.next().unwrap() });
        }
        seq = merged;
    }
    let us = {
        let mut s = udp::Socket::new(
            udp::PacketBuffer::new(vec![udp::PacketMetadata::EMPTY; 8], vec![0u8; 4096]),
            udp::PacketBuffer::new(vec![udp::PacketMetadata::EMPTY; 1], vec![0u8; 16]),
        );
        let _ = s.bind(IpListenEndpoint { addr: None, port: 5000 });
        s
    };
    let uh = host.sockets.add(us);
    let mut now: Micros = 1000;
    let one_poll = rng.bool();
    let mut trace = Vec::new();
    let first = seq[0].0;
    for (d, f) in &seq {
        let dd = &mut ds[*d];
        dd.seen[*f] += 1;
        if !dd.complete {
            add_range(&mut dd.ranges, dd.offs[*f], dd.sizes[*f]);
            dd.max_ranges = dd.max_ranges.max(dd.ranges.len());
            if dd.ranges.len() == 1 && dd.ranges[0] == (0, dd.l4len) {
                dd.complete = true;
            }
        }
        trace.push(format!("{}{}[{}..{})", if *d == 0 { "A" } else { "B" }, f, dd.offs[*f], dd.offs[*f] + dd.sizes[*f]));
        host.dev.rx.push_back(dd.frames[*f].clone());
        if !one_poll {
            host.poll(now);
            now += rng.range(0, 1500) as Micros;
        }
    }
    host.poll(now);
    let describe = |ds: &Vec<D>, what: &str| -> String {
        format!(
            "{} ; two UDP datagrams {} / {} -> {}:5000 with identifications {:#06x}/{:#06x}: A = {} L4 bytes in fragments {:?}, B = {} L4 bytes in fragments {:?}; arrival order [{}] ({}); reassembly slots {}, range limit {}",
            what,
            peer.v4,
            peer_b.v4,
            dst,
            id0,
            if two_senders { id0 } else { id0.wrapping_add(1) },
            ds[0].l4len,
            ds[0].sizes,
            ds[1].l4len,
            ds[1].sizes,
            trace.join(" "),
            if one_poll { "one poll" } else { "one poll per fragment" },
            REASSEMBLY_BUFFER_COUNT,
            ASSEMBLER_MAX_SEGMENT_COUNT
        )
    };
    if ctx.verbose {
        println!("{}", describe(&ds, "scenario"));
    }
    let mut n = 0;
    loop {
        let s = host.sockets.get_mut::<udp::Socket>(uh);
        let Ok((data, meta)) = s.recv() else { break };
        let data = data.to_vec();
        n += 1;
        out.evals += 1;
        match ds.iter().position(|d| d.pl == data && d.sport == meta.endpoint.port) {
            Some(i) => ds[i].delivered += 1,
            None => out.violate(Violation::new(
                "ingress:interleaved:delivered-datagram-is-neither-original",
                describe(&ds, &format!("the socket returned {} bytes {} from port {} which is neither A ({}) nor B ({})", data.len(), hex_cap(&data, 40), meta.endpoint.port, hex_cap(&ds[0].pl, 24), hex_cap(&ds[1].pl, 24))),
            )),
        }
        if n > 16 {
            break;
        }
    }
    for i in 0..2 {
        let copies = *ds[i].seen.iter().min().unwrap();
        out.evals += 1;
        if ds[i].delivered > copies.max(1) {
            out.violate(Violation::new("ingress:interleaved:delivered-more-often-than-sent", describe(&ds, &format!("datagram {} was delivered {} times", if i == 0 { "A" } else { "B" }, ds[i].delivered))));
        }
        // the datagram whose fragment arrived first owns a slot until it completes; with two slots both do
        let has_slot = i == first || REASSEMBLY_BUFFER_COUNT >= 2;
        let must = has_slot && ds[i].complete && ds[i].max_ranges <= ASSEMBLER_MAX_SEGMENT_COUNT && ds[i].l4len <= REASSEMBLY_BUFFER_SIZE;
        if must {
            out.count("ingress_obligatory_deliveries_checked", 1);
            if ds[i].delivered == 0 {
                out.violate(Violation::new(
                    "ingress:interleaved:not-reassembled",
                    describe(&ds, &format!("datagram {} had a reassembly slot, all its fragments arrived and it never needed more than {} ranges, yet it was not delivered", if i == 0 { "A" } else { "B" }, ds[i].max_ranges)),
                ));
            }
        }
    }
    out.count("ingress_cases", 1);
    out.count("ingress_interleaved_cases", 1);
    out.count("ingress_fragments_delivered", seq.len() as u64);
    out.count("ingress_datagrams_delivered_and_compared", (ds[0].delivered + ds[1].delivered) as u64);
    out.class(format!("rx:interleaved:k{}+{}:delivered{}+{}", ds[0].sizes.len(), ds[1].sizes.len(), ds[0].delivered.min(2), ds[1].delivered.min(2)));
    if idx == 0 {
        out.sample = Some(Json::obj().set("arrival_order", Json::s(trace.join(" "))));
    }
    out
}

fn post(sum: &mut Summary) {
    let kmax = perm_kmax(&sum.ctx);
    sum.extra.push((
        "exhaustive_scope".into(),
        Json::s(format!(
            "ingress-perm part: every arrival order of k = 2..{} fragments x (no duplicate | every fragment duplicated at every position) = {} combinations, each with {} random datagram/medium variants; all other parts are sampled",
            kmax,
            total_combos(kmax),
            if sum.ctx.thorough() { PERM_VARIANTS_THOROUGH } else { PERM_VARIANTS_QUICK }
        )),
    ));
    sum.extra.push(("assembler_max_segment_count".into(), Json::u(ASSEMBLER_MAX_SEGMENT_COUNT as u64)));
    sum.extra.push(("fragmentation_buffer_size".into(), Json::u(FRAGMENTATION_BUFFER_SIZE as u64)));
    sum.extra.push(("reassembly_buffer_size".into(), Json::u(REASSEMBLY_BUFFER_SIZE as u64)));
}

pub fn monitor() -> super::Monitor {
    super::Monitor {
        id: "C12",
        rule: RULE,
        assumptions: &[
            "a datagram whose IP length exceeds FRAGMENTATION_BUFFER_SIZE may be dropped silently, but must then not appear at all",
            "echo replies are owed only in the one-at-a-time part and only when the requester's link address is already known (answers are not queued during neighbor resolution); elsewhere a reply may be missing but never incomplete",
            "ingress: every permutation is played into a fresh interface within a few virtual milliseconds, so a reassembly slot is free and nothing expires",
            "ingress-interleaved: of two datagrams whose fragments arrive interleaved, the one whose fragment arrives first owns a reassembly slot until it completes and is obligatory (both are when REASSEMBLY_BUFFER_COUNT >= 2); whatever is delivered must be one of the two originals",
            "ingress: deliveries are bounded by the number of complete copies of the fragment set that arrived; a duplicate after completion legitimately opens a new (never completing) reassembly",
            "the reassembly obligation is computed on the harness's own range-set model: obligatory iff all fragments arrived, the union of arrived ranges never consisted of more than ASSEMBLER_MAX_SEGMENT_COUNT runs, and the L4 length fits REASSEMBLY_BUFFER_SIZE",
            "device checksum capabilities are the default",
        ],
        floors: &[
            ("egress_cases", 8_000),
            ("egress_datagrams_complete_and_exact", 15_000),
            ("egress_fragmented_datagrams_reassembled", 10_000),
            ("egress_fragments_validated", 60_000),
            ("egress_datagrams_with_9+_fragments", 1_000),
            ("egress_echo_requests", 4_000),
            ("egress_polls_blocked", 30_000),
            ("egress_token_cap_hit", 1_000),
            ("ingress_perm_combinations", 500),
            ("ingress_obligatory_deliveries_checked", 15_000),
            ("ingress_datagrams_delivered_and_compared", 20_000),
            ("ingress_nothing_delivered", 500),
            ("ingress_orders_beyond_the_range_limit", 500),
            ("ingress_interleaved_cases", 5_000),
            ("distinct", 150),
        ],
        parts: vec![
            super::Part { name: "egress-single", cases: |c| c.n(80_000, 1_500_000), f: egress_single },
            super::Part { name: "egress-b2b", cases: |c| c.n(80_000, 1_500_000), f: egress_b2b },
            super::Part {
                name: "ingress-perm",
                cases: |c| total_combos(perm_kmax(c)) * c.n(PERM_VARIANTS_QUICK, PERM_VARIANTS_THOROUGH),
                f: ingress_perm,
            },
            super::Part { name: "ingress-sampled", cases: |c| c.n(200_000, 4_000_000), f: ingress_sampled },
            super::Part { name: "ingress-interleaved", cases: |c| c.n(100_000, 2_000_000), f: ingress_interleaved },
        ],
        post: Some(post),
    }
}
