//! C01 / C02 / C05(i) / C13(tcp): the two-endpoint simulation (sim::tcpsim) with
//! one verdict per property.  All four monitors watch every run; each check
//! reports only the violations tagged with its own property id.
use crate::sim::tcpsim::*;
use crate::util::json::Json;
use crate::util::rng::Rng;
use crate::util::run::*;

fn size_class(n: usize) -> &'static str {
    match n {
        0..=1 => "1",
        2..=535 => "sub-seg",
        536..=1460 => "seg",
        1461..=65535 => "multi-seg",
        _ => "scaled",
    }
}

pub fn run_pair(prop: &'static str, idx: u64, rng: &mut Rng, ctx: &Ctx, tweak: fn(&mut SimCfg, &mut Rng)) -> CaseOut {
    let mut out = CaseOut::default();
    let mut cfg = random_cfg(rng, ctx.thorough());
    tweak(&mut cfg, rng);
    let case_tag = rng.next_u64();
    let mut sim = TcpSim::new(cfg.clone(), case_tag);
    sim.trace_on = ctx.verbose;
    sim.run(rng);
    // socket reuse: a second (sometimes third) connection on the same sockets after TIME-WAIT
    let mut incarnations = 1u16;
    while incarnations < 3 && (sim.stats.aborted_by_plan || rng.chance(1, 3)) && sim.stats.completed && sim.stats.events <= cfg.max_events {
        if sim.stats.aborted_by_plan {
            out.count("connections_aborted_by_the_applications", 1);
        }
        let tag2 = rng.next_u64();
        if !sim.reincarnate(rng, tag2, ctx.thorough(), incarnations) {
            out.count("reuse_not_possible_sockets_not_closed", 1);
            break;
        }
        incarnations += 1;
        out.count("connections_on_reused_sockets", 1);
        sim.run(rng);
    }
    let st = sim.stats.clone();
    if ctx.verbose {
        println!("stats: {:?}", st);
        println!("sender0: {:?}", sim.smon[0].stats);
        println!("sender1: {:?}", sim.smon[1].stats);
    }
    // ---- evidence
    let fclass = format!("{}|{}", cfg.fault[0].class(), cfg.fault[1].class());
    let cclass = format!(
        "{}{}|rx:{}/{}|cc{}{}|{}",
        if cfg.v6 { "v6" } else { "v4" },
        if cfg.ethernet { "eth" } else { "ip" },
        size_class(cfg.ep[0].rx_buf),
        size_class(cfg.ep[1].rx_buf),
        cfg.ep[0].cc,
        cfg.ep[1].cc,
        if cfg.hostile_until == 0 { "calm" } else { "hostile" }
    );
    out.class(format!("fault:{}", fclass));
    out.class(format!("cfg:{}", cclass));
    if st.wrap31 > 0 {
        out.class("wrap:2^31");
    }
    if st.wrap32 > 0 {
        out.class("wrap:2^32");
    }
    match prop {
        "C01" => out.evals = st.recv_calls,
        "C02" => out.evals = st.inv_checks,
        "C05" => out.evals = sim.smon[0].stats.data_segments + sim.smon[1].stats.data_segments + sim.smon[0].stats.syns + sim.smon[1].stats.syns,
        _ => out.evals = st.n_checks + st.s_probes,
    }
    out.count("runs", 1);
    out.count("polls", st.polls);
    out.count("frames_sent", st.frames_sent);
    out.count("frames_dropped", st.dropped);
    out.count("frames_duplicated", st.duplicated);
    out.count("frames_corrupted", st.corrupted);
    out.count("bytes_delivered_and_compared", st.bytes_delivered);
    out.count("retransmissions", st.retransmissions);
    out.count("out_of_order_arrivals", st.ooo_arrivals);
    out.count("zero_window_acks", st.zero_window_acks);
    out.count("fins_on_wire", st.fins_seen);
    out.count("finished_reported", st.finished_seen);
    out.count("wrap_2^31_crossed", st.wrap31);
    out.count("wrap_2^32_crossed", st.wrap32);
    out.count("invariant_I_evaluations", st.inv_checks);
    out.count("obligation_data", st.inv_oblig[0]);
    out.count("obligation_syn", st.inv_oblig[1]);
    out.count("obligation_fin", st.inv_oblig[2]);
    out.count("N_evaluations", st.n_checks);
    out.count("S_probes", st.s_probes);
    out.count("completed_runs", st.completed as u64);
    out.count("rst_on_wire", st.rst_seen);
    out.count("keep_alive_toggled_by_the_application", st.keep_alive_toggles);
    if st.storm {
        out.count("runs_cut_by_frame_storm", 1);
        if ctx.verbose {
            println!("RUN CUT: more than 60000 frames in flight");
        }
    }
    if st.events > cfg.max_events {
        out.count("runs_cut_by_event_budget", 1);
    }
    for k in 0..2 {
        let s = &sim.smon[k].stats;
        out.count("c05_data_segments", s.data_segments);
        out.count("c05_retransmitted_segments", s.retransmitted_segments);
        out.count("c05_zero_window_probes", s.probes);
        out.count("c05_keep_alive_segments", s.keep_alives);
        out.count("c05_bytes_content_checked", s.bytes_checked);
        out.count("c05_window_edge_moved_left", s.edge_shrank);
        if s.min_slack == Some(0) {
            out.count("c05_segments_touching_the_edge", 1);
        }
    }
    if st.completed {
        out.class(format!("done-in:{}s", (st.completion_time / 1_000_000).min(3600) / 60 * 60));
    }
    for t in sim.violations {
        if t.prop == prop {
            out.violate(t.v);
        }
    }
    if idx == 0 {
        out.sample = Some(
            Json::obj()
                .set("config", Json::s(format!("{:?}", cfg)))
                .set("stats", Json::s(format!("{:?}", st)))
                .set("trace_head", Json::Arr(sim.trace.iter().take(25).map(|s| Json::s(s.clone())).collect())),
        );
    }
    out
}

fn no_tweak(_c: &mut SimCfg, _r: &mut Rng) {}

/// C13 wants many probes
fn tweak_c13(c: &mut SimCfg, r: &mut Rng) {
    c.early_polls = true;
    c.probe_pm = *r.pick(&[300u32, 600, 900]);
}

/// C02 wants zero-window episodes and hostile prefixes that end at awkward moments
fn tweak_c02(c: &mut SimCfg, r: &mut Rng) {
    if r.chance(1, 2) && c.hostile_until == 0 {
        c.hostile_until = r.range(100_000, 20_000_000) as i64;
    }
}

pub fn c01_case(i: u64, r: &mut Rng, c: &Ctx) -> CaseOut {
    run_pair("C01", i, r, c, no_tweak)
}
pub fn c02_case(i: u64, r: &mut Rng, c: &Ctx) -> CaseOut {
    run_pair("C02", i, r, c, tweak_c02)
}
pub fn c05_case(i: u64, r: &mut Rng, c: &Ctx) -> CaseOut {
    run_pair("C05", i, r, c, no_tweak)
}
pub fn c13_case(i: u64, r: &mut Rng, c: &Ctx) -> CaseOut {
    run_pair("C13", i, r, c, tweak_c13)
}

pub fn monitor_c01() -> super::Monitor {
    super::Monitor {
        id: "C01",
        rule: "two real smoltcp endpoints over a link that drops/duplicates/delays/reorders/corrupts (one byte) per seeded fate schedule, then becomes reliable; stream content is offset-keyed; after every recv: received bytes == peer's bytes at those offsets and never more than written; Finished only after the peer closed and every byte was handed over. A class is a distinct (fault class per direction) or (configuration class) or sequence-wrap kind.",
        assumptions: &[
            "in a third of the completed runs the same two sockets are reused for one or two further connections after TIME-WAIT has expired (new stream, new faults, fresh per-connection oracle state; virtual time and both interfaces continue)",
            "corruption changes exactly one byte per corrupted frame (always detected by the Internet checksum)",
            "the reader keeps reading in the reliable phase (TIME-WAIT expiry discards unread data)",
        ],
        floors: &[("runs", 200), ("bytes_delivered_and_compared", 100_000), ("retransmissions", 50), ("out_of_order_arrivals", 20), ("distinct", 30)],
        parts: vec![super::Part { name: "pair", cases: |c| c.n(15_000, 300_000), f: c01_case }],
        post: None,
    }
}

pub fn monitor_c02() -> super::Monitor {
    super::Monitor {
        id: "C02",
        rule: "same simulation, endpoints polled ONLY on frame arrival and at the instant last returned by poll_at (plus optional early polls). (I) after every poll: SYN-SENT/SYN-RECEIVED/FIN-WAIT-1/CLOSING/LAST-ACK, or ESTABLISHED/CLOSE-WAIT with send_queue()>0, implies Interface::poll_at is Some; (Q) no frame in flight, both poll_at None, no application action enabled, transfer incomplete => stalled for ever; (B) everything delivered and both sockets CLOSED/TIME-WAIT within 3600 s of virtual time after the hostile phase. A class is a fault/config class or completion-time bucket.",
        assumptions: &[
            "in a third of the completed runs the same two sockets are reused for one or two further connections after TIME-WAIT has expired (new stream, new faults, fresh per-connection oracle state; virtual time and both interfaces continue)",
            "'eventually' is restated as (I)+(Q)+(B); a livelock slower than 3600 virtual seconds is missed",
            "fault model: drop/duplicate/delay/reorder/one-byte corruption; delays far below the sequence-space wrap time",
        ],
        floors: &[("runs", 200), ("invariant_I_evaluations", 20_000), ("obligation_data", 1000), ("obligation_syn", 200), ("obligation_fin", 200), ("completed_runs", 100)],
        parts: vec![super::Part { name: "pair", cases: |c| c.n(15_000, 300_000), f: c02_case }],
        post: None,
    }
}

pub fn monitor_c05() -> super::Monitor {
    super::Monitor {
        id: "C05",
        rule: "every segment emitted by each socket of the two-endpoint simulation is judged against state derived only from frames delivered to that socket and from the application's writes: data end <= highest right edge (ack + (wnd << negotiated shift)) ever delivered, one-byte probes at the edge excepted; payload + TCP option bytes <= max(announced MSS,48) (536 if absent) and <= MTU; payload == the application's bytes at those offsets (also retransmitted); no gap in new data; FIN exactly at the end of the written stream, never moving, nothing beyond it; SYN window == free buffer unscaled; later window fields << negotiated shift <= receive buffer. A class is a fault/config class.",
        assumptions: &[
            "in a third of the completed runs the same two sockets are reused for one or two further connections after TIME-WAIT has expired (new stream, new faults, fresh per-connection oracle state; virtual time and both interfaces continue)",
            "learned window = maximum right edge over all valid segments delivered to the socket (weakest sound reading: a stack with a smaller view only sends less)",
            "MSS below 48 is treated as 48 (the lower clamp is a listed mechanism of the property)",
            "the device does not declare max_burst_size in these runs, so the SYN window equals the free receive buffer capped at 65535",
        ],
        floors: &[("runs", 200), ("c05_data_segments", 50_000), ("c05_retransmitted_segments", 500), ("c05_zero_window_probes", 5)],
        parts: vec![super::Part { name: "pair", cases: |c| c.n(15_000, 300_000), f: c05_case }],
        post: None,
    }
}

pub fn monitor_c13() -> super::Monitor {
    super::Monitor {
        id: "C13",
        rule: "(S) between an answer D of Interface::poll_at and the next frame reception or socket/interface call, no poll at an instant before D (any instant when D is None) may transmit a frame: judged on extra polls inserted at random instants in [now, D) - first, last and interior instants - and on the drivers' own early polls; (N) after a poll that neither received nor transmitted a frame on a device that hands out tokens, poll_at must be None or strictly later than that poll's timestamp; (D) Interface::poll_delay asked at the same instant equals the distance to the poll_at answer (zero if due, None if None). Drivers: the two-endpoint TCP simulation (probes built in: all timers, retransmission, delayed ACK, keep-alive, zero-window probes, TIME-WAIT) and, through a probe that rides inside the simulated host (sim/hostprobe.rs, mutable accesses to the socket set and the interface are tracked), the datagram-socket, egress-fragmentation, neighbor-discovery, DHCP, DNS/mDNS drivers and the scenario families with SLAAC on and off, with and without router advertisements. A class is driver x (S|N) x how the poll came about x deadline kind, plus the kind of frame a timer produced after a probed wait.",
        assumptions: &[
            "IGMP/MLD report frames are outside the claim and ignored",
            "'no socket calls in between' is enforced by construction: an interval is judged only if neither the SocketSet nor the Interface was borrowed mutably since poll_at was asked",
            "frames queued for reception are withheld from an extra poll (they arrive at the driver's next instant, not before)",
        ],
        floors: &[
            ("S_probes", 20_000),
            ("N_evaluations", 50_000),
            ("S_evaluations_extra", 100_000),
            ("S_evaluations_regular", 100_000),
            ("timer_work_after_probed_wait", 20_000),
            ("runs_dgram", 1_000),
            ("runs_frag", 1_000),
            ("runs_neigh", 500),
            ("runs_dhcp", 1_000),
            ("runs_dns", 1_000),
            ("runs_scen-mcast-slaac", 200),
            ("poll_delay_compared_with_poll_at", 100_000),
        ],
        parts: vec![super::Part { name: "tcp-pair", cases: |c| c.n(15_000, 300_000), f: c13_case }],
        post: None,
    }
}
