//! C08 (b) "emitted valid" and (c) "enforced".
//!
//! (b) re-runs the traffic scenarios of C10 (TCP, UDP/ICMP/raw datagrams incl. fragments and payloads
//! crafted so that the UDP checksum computes to zero, replies to hostile input, DHCP, DNS, multicast)
//! and reports the checksum defects the independent validator finds: every IPv4 header, ICMPv4,
//! ICMPv6, UDP, TCP (and IGMP) checksum of every emitted frame is recomputed with indep::cksum for
//! each offload setting in which the stack has to fill it in; nothing is required of a checksum
//! whose transmit side is off.
//! (c) see sim::enforce.
use crate::sim::enforce;
use crate::sim::scen;
use crate::sim::traffic::Focus;
use crate::util::rng::Rng;
use crate::util::run::*;

pub const RULE: &str = "(b) emitted: in TCP / datagram / reply / DHCP / DNS / multicast scenarios on Ethernet, IP and IEEE 802.15.4 media with random per-protocol checksum offload settings and garbage-prefilled transmit buffers, every IPv4 header, ICMPv4, ICMPv6, UDP, TCP and IGMP checksum of every emitted frame (and of every datagram reassembled from emitted IPv4 / 6LoWPAN fragments) is recomputed with an independent RFC 1071 implementation whenever the stack itself has to fill it in (transmit checksumming on); UDP payloads crafted so that the sum is zero must travel as 0xffff; with transmit checksumming on a UDP checksum field of zero counts as not filled. (c) enforced: a valid probe (echo request, UDP to a bound socket, TCP SYN to a listener, TCP data to an established connection, UDP in IPv4 fragments; IPv4 and IPv6; Ethernet, IP, 6LoWPAN) is first shown to have an effect; then every single-bit corruption of every bit of the packet(s) and sampled double-bit corruptions (half of them the cancelling same-position pattern) are delivered to a live target: whenever the independent implementation says that a checksum the stack must verify fails, no frame may be sent and no socket quantity (state, endpoints, queues, can_recv/can_send) may change. UDP over IPv4 with checksum 0 must be delivered, UDP over IPv6 with checksum 0 must be dropped. With receive checksumming off every bit flip of each checksum field must give exactly the effect of the unmodified probe. A class is a (probe kind, family, medium, rx mode) or a scenario configuration / frame kind.";

fn emitted_case(i: u64, r: &mut Rng, c: &Ctx) -> CaseOut {
    match i % 8 {
        0 | 1 => scen::scen_tcp(i, r, c, Focus::Checksums),
        2 | 3 => scen::scen_dgram(i, r, c, Focus::Checksums),
        4 | 5 => scen::scen_replies(i, r, c, Focus::Checksums),
        6 => {
            if (i / 8) % 2 == 0 {
                scen::scen_dhcp(i, r, c, Focus::Checksums)
            } else {
                scen::scen_dns(i, r, c, Focus::Checksums)
            }
        }
        _ => scen::scen_mcast(i, r, c, Focus::Checksums),
    }
}

pub fn monitor() -> super::Monitor {
    super::Monitor {
        id: "C08BC",
        rule: RULE,
        assumptions: &[
            "(b) same scenario assumptions as C10; only checksum defects are reported here, library panics end the case without being reported (C10 reports them)",
            "(b) with transmit checksumming on, a UDP checksum field of zero counts as a checksum that was not filled in (the stack never chooses 'no checksum')",
            "(c) a mutant is delivered only if the independent parser can still locate the checksummed regions (IP header readable, lengths inside the buffer); other mutants are counted as not judged",
            "(c) the IPv6 payload-length octets are not mutated on IEEE 802.15.4 (6LoWPAN does not carry them); 6LoWPAN probes fit one frame",
            "(c) all mutants of a case are delivered to one live target at one virtual instant (IPv4 fragment probes: 61 s apart so that the reassembly buffer forgets earlier valid fragments); the case stops at the first violation",
            "(c) observable socket quantities: TCP state/endpoints/queues/can_*/may_*, UDP and ICMP queues, DHCP events + lease + requested deadline, DNS query status + requested deadline, and every transmitted frame",
        ],
        floors: &[
            ("frames_judged", 200_000),
            ("checksums_recomputed", 150_000),
            ("checksums_ipv4", 50_000),
            ("checksums_tcp", 50_000),
            ("checksums_udp", 8000),
            ("checksums_icmpv4", 800),
            ("checksums_icmpv6", 5000),
            ("fragmented_datagrams_reassembled_and_judged", 8000),
            ("udp_datagrams_whose_computed_checksum_is_zero_sent_as_ffff", 30),
            ("probes_with_confirmed_effect", 2000),
            ("corrupted_packets_delivered", 1_000_000),
            ("corrupted_ipv4-header", 100_000),
            ("corrupted_tcp", 150_000),
            ("corrupted_udp", 400_000),
            ("corrupted_icmpv4", 30_000),
            ("corrupted_icmpv6", 100_000),
            ("single_bit_mutants", 800_000),
            ("double_bit_mutants", 300_000),
            ("wrong_checksum_field_with_rx_off", 6000),
            ("udp4_zero_checksum_probes", 150),
            ("udp6_zero_checksum_probes", 150),
            ("distinct", 300),
        ],
        parts: vec![
            super::Part { name: "emitted", cases: |c| c.n(12_000, 240_000), f: emitted_case },
            super::Part { name: "enforced", cases: |c| c.n(8000, 80_000), f: enforce::enforced_case },
        ],
        post: None,
    }
}
