//! C08A – the Internet checksum routine agrees with RFC 1071 (side part of C08).
//!
//! Oracle: an independent reference (u64 accumulator over big-endian 16-bit
//! words, an odd trailing byte padded with zero on the right, carries folded,
//! one's complement) plus hand-assembled pseudo-headers (RFC 768/793 for IPv4,
//! RFC 8200 §8.1 for IPv6).  Compared with
//!   * `wire::checksum::{data, combine, pseudo_header_v4, pseudo_header_v6, pseudo_header}` directly, and
//!   * `fill_checksum` / `verify_checksum` of the IPv4 header, UDP, TCP, ICMPv4, ICMPv6 and IGMP views.
use crate::util::json::Json;
use crate::util::rng::Rng;
use crate::util::run::*;
use smoltcp::wire::*;

pub const RULE: &str = "RFC 1071 reference vs smoltcp: checksum::data on every length 0..=2048 (thorough 0..=65535) x start alignment 0..7 x {random, zeros, ones, single non-zero byte at every position (len<=512), all ones with one small 2/4/8-byte word in either byte order (the lost-carry pattern of word-parallel sums), boundary-valued 2/4/8-byte words}; checksum::combine on a boundary grid (thorough: all 2^32 pairs); pseudo_header_v4/v6/pseudo_header on random addresses x every length; for IPv4 header / UDP / TCP / ICMPv4 / ICMPv6 / IGMP: the field written by fill_checksum equals the reference value (UDP: 0 is sent as 0xffff; every length also with contents steered so that the checksum computes to 0), the reference accepts the filled packet, verify_checksum accepts it, and verify_checksum agrees with the reference for checksum fields set to reference +/- k, to 0 / 0xffff, after single-bit flips inside the covered region and after changes outside it.";

// ================================================================ the reference

/// Sum of the big-endian 16-bit words of `b`; an odd trailing byte is the HIGH octet of a last word.
fn ref_sum(b: &[u8]) -> u64 {
    let mut s: u64 = 0;
    let mut i = 0;
    while i + 1 < b.len() {
        s += (b[i] as u64) << 8 | b[i + 1] as u64;
        i += 2;
    }
    if i < b.len() {
        s += (b[i] as u64) << 8;
    }
    s
}

/// End-around carry.
fn ref_fold(mut s: u64) -> u16 {
    while s >> 16 != 0 {
        s = (s & 0xffff) + (s >> 16);
    }
    s as u16
}

fn ref_pseudo_v4(src: &Ipv4Address, dst: &Ipv4Address, proto: u8, len: u32) -> u64 {
    let mut p = Vec::with_capacity(12);
    p.extend_from_slice(&src.octets());
    p.extend_from_slice(&dst.octets());
    p.push(0);
    p.push(proto);
    p.extend_from_slice(&(len as u16).to_be_bytes());
    ref_sum(&p)
}

fn ref_pseudo_v6(src: &Ipv6Address, dst: &Ipv6Address, proto: u8, len: u32) -> u64 {
    let mut p = Vec::with_capacity(40);
    p.extend_from_slice(&src.octets());
    p.extend_from_slice(&dst.octets());
    p.extend_from_slice(&len.to_be_bytes()); // 32-bit upper-layer packet length
    p.extend_from_slice(&[0, 0, 0, proto]);
    ref_sum(&p)
}

// ================================================================ inputs

#[derive(Clone, Copy, Debug, PartialEq)]
enum Content {
    Random,
    Zeros,
    Ones,
    Single(usize, u8),
    /// all ones except one W-byte word (W-aligned from the start of the slice) holding a small value,
    /// little- or big-endian: the pattern on which a word-parallel sum with a wider accumulator
    /// loses the last end-around carry (RFC 1071 section 2.(C))
    Carry { w: usize, word: usize, v: u8, be: bool },
    /// every W-byte word drawn from a few boundary values
    Mix { w: usize },
}

fn content_name(c: Content) -> &'static str {
    match c {
        Content::Random => "random",
        Content::Zeros => "zeros",
        Content::Ones => "ones",
        Content::Single(..) => "single-byte",
        Content::Carry { .. } => "ones-with-one-small-word",
        Content::Mix { .. } => "boundary-words",
    }
}

/// A buffer of `len` bytes starting `align` bytes into a larger allocation.
struct Buf {
    store: Vec<u8>,
    align: usize,
    len: usize,
}

impl Buf {
    fn new(rng: &mut Rng, len: usize, align: usize, c: Content) -> Buf {
        // the surroundings are random so that reading outside the slice would show
        let mut store = rng.bytes(len + 16);
        let s = &mut store[align..align + len];
        match c {
            Content::Random => {}
            Content::Zeros => s.fill(0),
            Content::Ones => s.fill(0xff),
            Content::Single(pos, v) => {
                s.fill(0);
                if pos < len {
                    s[pos] = v;
                }
            }
            Content::Carry { w, word, v, be } => {
                s.fill(0xff);
                let at = word * w;
                if at + w <= len {
                    s[at..at + w].fill(0);
                    s[if be { at + w - 1 } else { at }] = v;
                }
            }
            Content::Mix { w } => {
                for chunk in s.chunks_mut(w) {
                    let n = chunk.len();
                    match rng.below(6) {
                        0 => chunk.fill(0),
                        1 => chunk.fill(0xff),
                        2 => {
                            chunk.fill(0);
                            chunk[0] = 1 + rng.below(255) as u8;
                        }
                        3 => {
                            chunk.fill(0);
                            chunk[n - 1] = 1 + rng.below(255) as u8;
                        }
                        4 => {
                            chunk.fill(0xff);
                            chunk[0] = 0xfe;
                        }
                        _ => {
                            chunk.fill(0xff);
                            chunk[n - 1] = 0xfe;
                        }
                    }
                }
            }
        }
        Buf { store, align, len }
    }
    fn get(&self) -> &[u8] {
        &self.store[self.align..self.align + self.len]
    }
    fn get_mut(&mut self) -> &mut [u8] {
        &mut self.store[self.align..self.align + self.len]
    }
}

fn hexcap(b: &[u8]) -> String {
    if b.len() <= 96 {
        Json::hex(b).to_string()
    } else {
        format!("{}..(+{} bytes)..{}", Json::hex(&b[..48]).to_string(), b.len() - 96, Json::hex(&b[b.len() - 48..]).to_string())
    }
}

fn max_len(ctx: &Ctx) -> u64 {
    if ctx.thorough() {
        65535
    } else {
        2048
    }
}

// ================================================================ part "data": checksum::data

fn data_case(idx: u64, rng: &mut Rng, _ctx: &Ctx) -> CaseOut {
    let mut out = CaseOut::default();
    let len = idx as usize;
    let mut contents = vec![Content::Random, Content::Random, Content::Zeros, Content::Ones];
    if len <= 512 {
        for pos in 0..len {
            for v in [0x01u8, 0x80, 0xff] {
                contents.push(Content::Single(pos, v));
            }
        }
    } else {
        // longer buffers: the single byte at the ends and at a few random places
        for pos in [0, 1, len / 2, len - 2, len - 1, rng.usize_below(len), rng.usize_below(len)] {
            contents.push(Content::Single(pos, *rng.pick(&[0x01u8, 0x80, 0xff])));
        }
    }
    for w in [2usize, 4, 8] {
        let words = len / w;
        if words >= 2 {
            for be in [false, true] {
                // the small value below and above the number of all-ones words
                contents.push(Content::Carry { w, word: rng.usize_below(words), v: 1, be });
                contents.push(Content::Carry { w, word: rng.usize_below(words), v: 1 + rng.below((words as u64 - 1).min(254)) as u8, be });
                contents.push(Content::Carry { w, word: rng.usize_below(words), v: 0xff, be });
            }
            contents.push(Content::Mix { w });
        }
    }
    for align in 0..8 {
        for &c in &contents {
            let buf = Buf::new(rng, len, align, c);
            let d = buf.get();
            out.evals += 1;
            let want = ref_fold(ref_sum(d));
            match catch(|| checksum::data(d)) {
                Ok(got) if got == want => {}
                Ok(got) => out.violate(
                    Violation::new(
                        "checksum-data",
                        format!("checksum::data over {} bytes (start alignment {}, content {}) {} = {:#06x}, RFC 1071 sum = {:#06x}", len, align, content_name(c), hexcap(d), got, want),
                    )
                    .with(Json::obj().set("len", Json::u(len as u64)).set("align", Json::u(align as u64)).set("content", Json::s(format!("{:?}", c))).set("got", Json::u(got as u64)).set("want", Json::u(want as u64))),
                ),
                Err(p) => out.violate(Violation::new(format!("checksum-data:{}", p.signature()), format!("checksum::data panicked on {} bytes: {}", len, p.msg))),
            }
            out.class(format!("data/{}/{}/align{}", content_name(c), if len % 2 == 1 { "odd" } else { "even" }, align));
        }
    }
    out.class(format!("data/len-bucket/{}", len_bucket(len)));
    out.count("data_lengths", 1);
    if len % 2 == 1 {
        out.count("data_odd_lengths", 1);
    }
    if idx == 0 {
        out.sample = Some(Json::obj().set("kind", Json::s("checksum::data vs RFC 1071 reference")).set("contents_per_alignment", Json::u(contents.len() as u64)));
    }
    out
}

fn len_bucket(len: usize) -> &'static str {
    match len {
        0 => "0",
        1..=3 => "1-3",
        4..=7 => "4-7",
        8..=63 => "8-63",
        64..=511 => "64-511",
        512..=2048 => "512-2048",
        _ => "2049-65535",
    }
}

// ================================================================ part "combine"

const GRID: &[u16] = &[0, 1, 2, 3, 0x00ff, 0x0100, 0x7ffe, 0x7fff, 0x8000, 0x8001, 0xff00, 0xfffd, 0xfffe, 0xffff];

fn check_combine(out: &mut CaseOut, words: &[u16]) {
    out.evals += 1;
    let want = ref_fold(words.iter().map(|&w| w as u64).sum());
    match catch(|| checksum::combine(words)) {
        Ok(got) if got == want => {}
        Ok(got) => out.violate(Violation::new("checksum-combine", format!("checksum::combine({:04x?}) = {:#06x}, the one's complement sum is {:#06x}", words, got, want)).with(Json::obj().set("words", Json::s(format!("{:04x?}", words))))),
        Err(p) => out.violate(Violation::new(format!("checksum-combine:{}", p.signature()), format!("checksum::combine({:04x?}) panicked: {}", words, p.msg))),
    }
}

fn combine_case(idx: u64, rng: &mut Rng, ctx: &Ctx) -> CaseOut {
    let mut out = CaseOut::default();
    if ctx.thorough() {
        // exhaustive: case = first word, all second words
        let a = idx as u16;
        for b in 0..=0xffffu16 {
            out.evals += 1;
            let want = ref_fold(a as u64 + b as u64);
            let got = checksum::combine(&[a, b]);
            if got != want {
                out.violate(Violation::new("checksum-combine", format!("checksum::combine([{:#06x}, {:#06x}]) = {:#06x}, the one's complement sum is {:#06x}", a, b, got, want)));
                break;
            }
        }
        out.count("combine_exhaustive_rows", 1);
        out.class(format!("combine/exhaustive/{}", a >> 12));
    }
    if idx < GRID.len() as u64 {
        let a = GRID[idx as usize];
        for &b in GRID {
            check_combine(&mut out, &[a, b]);
            for &c in GRID {
                check_combine(&mut out, &[a, b, c]);
            }
        }
        check_combine(&mut out, &[a]);
        check_combine(&mut out, &[]);
        out.class(format!("combine/grid/{:04x}", a));
    }
    // random lists of 1..=16 words, half of them made of boundary values
    for _ in 0..200 {
        let n = rng.urange(1, 16);
        let words: Vec<u16> = (0..n).map(|_| if rng.bool() { *rng.pick(GRID) } else { rng.u16() }).collect();
        check_combine(&mut out, &words);
        out.class(format!("combine/random/len{}", n));
    }
    out.count("combine_checks", out.evals);
    if idx == 0 {
        out.sample = Some(Json::obj().set("kind", Json::s("checksum::combine vs one's complement sum")).set("grid", Json::s(format!("{:04x?}", GRID))));
    }
    out
}

// ================================================================ part "pseudo"

fn rand_v4(rng: &mut Rng) -> Ipv4Address {
    match rng.below(6) {
        0 => Ipv4Address::UNSPECIFIED,
        1 => Ipv4Address::BROADCAST,
        _ => Ipv4Address::from_octets(rng.u32().to_be_bytes()),
    }
}

fn rand_v6(rng: &mut Rng) -> Ipv6Address {
    match rng.below(6) {
        0 => Ipv6Address::UNSPECIFIED,
        1 => Ipv6Address::from_octets([0xff; 16]),
        _ => {
            let mut o = [0u8; 16];
            rng.fill(&mut o);
            Ipv6Address::from_octets(o)
        }
    }
}

const PROTOS: &[u8] = &[0, 1, 2, 6, 17, 58, 0x3b, 0xff];

fn pseudo_case(idx: u64, rng: &mut Rng, _ctx: &Ctx) -> CaseOut {
    let mut out = CaseOut::default();
    // the length argument; IPv6 jumbograms (> 65535) are outside the statement
    let len = idx as u32;
    for _ in 0..8 {
        let proto = *rng.pick(PROTOS);
        let (s4, d4) = (rand_v4(rng), rand_v4(rng));
        let (s6, d6) = (rand_v6(rng), rand_v6(rng));
        let want4 = ref_fold(ref_pseudo_v4(&s4, &d4, proto, len));
        let want6 = ref_fold(ref_pseudo_v6(&s6, &d6, proto, len));
        let p = IpProtocol::from(proto);
        let checks: [(&str, u16, std::result::Result<u16, PanicInfo>); 4] = [
            ("pseudo_header_v4", want4, catch(|| checksum::pseudo_header_v4(&s4, &d4, p, len))),
            ("pseudo_header(v4)", want4, catch(|| checksum::pseudo_header(&s4.into(), &d4.into(), p, len))),
            ("pseudo_header_v6", want6, catch(|| checksum::pseudo_header_v6(&s6, &d6, p, len))),
            ("pseudo_header(v6)", want6, catch(|| checksum::pseudo_header(&s6.into(), &d6.into(), p, len))),
        ];
        for (name, want, got) in checks {
            out.evals += 1;
            let v6 = name.contains("v6");
            let addrs = if v6 { format!("{} -> {}", s6, d6) } else { format!("{} -> {}", s4, d4) };
            match got {
                Ok(g) if g == want => {}
                Ok(g) => out.violate(
                    Violation::new(format!("checksum-pseudo-header:{}", if v6 { "v6" } else { "v4" }), format!("checksum::{}({}, protocol {}, length {}) = {:#06x}, the RFC pseudo-header sums to {:#06x}", name, addrs, proto, len, g, want))
                        .with(Json::obj().set("fn", Json::s(name)).set("addresses", Json::s(addrs.clone())).set("protocol", Json::u(proto as u64)).set("length", Json::u(len as u64))),
                ),
                Err(p) => out.violate(Violation::new(format!("checksum-pseudo-header:{}", p.signature()), format!("checksum::{} panicked: {}", name, p.msg))),
            }
            out.class(format!("pseudo/{}/proto{}", name, proto));
        }
    }
    out.count("pseudo_lengths", 1);
    if idx == 0 {
        out.sample = Some(Json::obj().set("kind", Json::s("pseudo-header sums vs hand-assembled RFC 768/793/8200 pseudo-headers")));
    }
    out
}

// ================================================================ part "packets": fill_checksum / verify_checksum

#[derive(Clone, Copy, Debug, PartialEq)]
enum P {
    Ipv4Hdr,
    Udp4,
    Udp6,
    Tcp4,
    Tcp6,
    Icmpv4,
    Icmpv6,
    Igmp,
}

const ALL_P: [P; 8] = [P::Ipv4Hdr, P::Udp4, P::Udp6, P::Tcp4, P::Tcp6, P::Icmpv4, P::Icmpv6, P::Igmp];

struct Addrs {
    s4: Ipv4Address,
    d4: Ipv4Address,
    s6: Ipv6Address,
    d6: Ipv6Address,
}

impl P {
    fn name(self) -> &'static str {
        match self {
            P::Ipv4Hdr => "ipv4-header",
            P::Udp4 => "udp/ipv4",
            P::Udp6 => "udp/ipv6",
            P::Tcp4 => "tcp/ipv4",
            P::Tcp6 => "tcp/ipv6",
            P::Icmpv4 => "icmpv4",
            P::Icmpv6 => "icmpv6",
            P::Igmp => "igmp",
        }
    }
    fn min_len(self) -> usize {
        match self {
            P::Ipv4Hdr | P::Tcp4 | P::Tcp6 => 20,
            _ => 8,
        }
    }
    fn field(self) -> usize {
        match self {
            P::Ipv4Hdr => 10,
            P::Udp4 | P::Udp6 => 6,
            P::Tcp4 | P::Tcp6 => 16,
            P::Icmpv4 | P::Icmpv6 | P::Igmp => 2,
        }
    }
    fn is_udp(self) -> bool {
        matches!(self, P::Udp4 | P::Udp6)
    }
    /// How many leading bytes of the buffer the checksum covers.
    fn covered(self, b: &[u8]) -> usize {
        match self {
            P::Ipv4Hdr => (b[0] & 0x0f) as usize * 4,
            P::Udp4 | P::Udp6 => u16::from_be_bytes([b[4], b[5]]) as usize,
            _ => b.len(),
        }
    }
    fn pseudo(self, a: &Addrs, covered: usize) -> u64 {
        match self {
            P::Ipv4Hdr | P::Icmpv4 | P::Igmp => 0,
            P::Udp4 => ref_pseudo_v4(&a.s4, &a.d4, 17, covered as u32),
            P::Tcp4 => ref_pseudo_v4(&a.s4, &a.d4, 6, covered as u32),
            P::Udp6 => ref_pseudo_v6(&a.s6, &a.d6, 17, covered as u32),
            P::Tcp6 => ref_pseudo_v6(&a.s6, &a.d6, 6, covered as u32),
            P::Icmpv6 => ref_pseudo_v6(&a.s6, &a.d6, 58, covered as u32),
        }
    }
    fn fill(self, a: &Addrs, b: &mut [u8]) {
        match self {
            P::Ipv4Hdr => Ipv4Packet::new_unchecked(b).fill_checksum(),
            P::Udp4 => UdpPacket::new_unchecked(b).fill_checksum(&a.s4.into(), &a.d4.into()),
            P::Udp6 => UdpPacket::new_unchecked(b).fill_checksum(&a.s6.into(), &a.d6.into()),
            P::Tcp4 => TcpPacket::new_unchecked(b).fill_checksum(&a.s4.into(), &a.d4.into()),
            P::Tcp6 => TcpPacket::new_unchecked(b).fill_checksum(&a.s6.into(), &a.d6.into()),
            P::Icmpv4 => Icmpv4Packet::new_unchecked(b).fill_checksum(),
            P::Icmpv6 => Icmpv6Packet::new_unchecked(b).fill_checksum(&a.s6, &a.d6),
            P::Igmp => IgmpPacket::new_unchecked(b).fill_checksum(),
        }
    }
    fn verify(self, a: &Addrs, b: &[u8]) -> bool {
        match self {
            P::Ipv4Hdr => Ipv4Packet::new_unchecked(b).verify_checksum(),
            P::Udp4 => UdpPacket::new_unchecked(b).verify_checksum(&a.s4.into(), &a.d4.into()),
            P::Udp6 => UdpPacket::new_unchecked(b).verify_checksum(&a.s6.into(), &a.d6.into()),
            P::Tcp4 => TcpPacket::new_unchecked(b).verify_checksum(&a.s4.into(), &a.d4.into()),
            P::Tcp6 => TcpPacket::new_unchecked(b).verify_checksum(&a.s6.into(), &a.d6.into()),
            P::Icmpv4 => Icmpv4Packet::new_unchecked(b).verify_checksum(),
            P::Icmpv6 => Icmpv6Packet::new_unchecked(b).verify_checksum(&a.s6, &a.d6),
            P::Igmp => IgmpPacket::new_unchecked(b).verify_checksum(),
        }
    }
    /// The reference's opinion on a received packet. `None`: the statement does not fix the answer
    /// (a zero UDP checksum means "not computed" over IPv4 and is illegal over IPv6; whether the
    /// *view* accepts it there is the business of UdpRepr::parse, not of the checksum routine).
    fn ref_verify(self, a: &Addrs, b: &[u8]) -> Option<bool> {
        let f = self.field();
        if self.is_udp() && b[f] == 0 && b[f + 1] == 0 {
            return if self == P::Udp4 { Some(true) } else { None };
        }
        let cov = self.covered(b);
        Some(ref_fold(self.pseudo(a, cov) + ref_sum(&b[..cov])) == 0xffff)
    }
}

fn get_field(p: P, b: &[u8]) -> u16 {
    u16::from_be_bytes([b[p.field()], b[p.field() + 1]])
}

fn set_field(p: P, b: &mut [u8], v: u16) {
    b[p.field()..p.field() + 2].copy_from_slice(&v.to_be_bytes());
}

struct PacketCheck<'a> {
    out: &'a mut CaseOut,
    p: P,
    a: &'a Addrs,
    what: String,
}

impl<'a> PacketCheck<'a> {
    fn bad(&mut self, kind: &str, b: &[u8], msg: String) {
        self.out.violate(
            Violation::new(format!("{}:{}", kind, self.p.name()), format!("{} ({}): {}; packet {}", self.p.name(), self.what, msg, hexcap(b)))
                .with(Json::obj().set("protocol", Json::s(self.p.name())).set("setup", Json::s(self.what.clone())).set("packet_len", Json::u(b.len() as u64)).set("src4", Json::s(self.a.s4.to_string())).set("dst4", Json::s(self.a.d4.to_string())).set("src6", Json::s(self.a.s6.to_string())).set("dst6", Json::s(self.a.d6.to_string()))),
        );
    }

    /// smoltcp's verify_checksum must agree with the reference on this received packet.
    fn agree(&mut self, kind: &str, b: &[u8], how: &str) {
        self.out.evals += 1;
        let Some(want) = self.p.ref_verify(self.a, b) else { return };
        let (p, a) = (self.p, self.a);
        match catch(|| p.verify(a, b)) {
            Ok(got) if got == want => {}
            Ok(got) => self.bad(kind, b, format!("{}: verify_checksum() = {}, the RFC 1071 reference says {}", how, got, want)),
            Err(pi) => self.bad(kind, b, format!("{}: verify_checksum() panicked at {}:{}: {}", how, pi.file, pi.line, pi.msg)),
        }
    }
}

/// Where a free 16-bit word lives that may be chosen at will (identification, sequence number,
/// first payload word): used to steer the checksum to the special value zero.
fn free_word(p: P) -> usize {
    match p {
        P::Udp4 | P::Udp6 => 8,
        _ => 4,
    }
}

fn packets_one(out: &mut CaseOut, rng: &mut Rng, p: P, len: usize, align: usize, c: Content, flips: usize, force_zero: bool) {
    let a = Addrs { s4: rand_v4(rng), d4: rand_v4(rng), s6: rand_v6(rng), d6: rand_v6(rng) };
    let mut buf = Buf::new(rng, len, align, c);
    // structural fields the checksum code reads
    let trailing = {
        let b = buf.get_mut();
        match p {
            P::Ipv4Hdr => {
                // IHL 5..=15 words, as many as fit; the rest of the buffer is payload the checksum must ignore
                let max_ihl = (len / 4).min(15);
                let ihl = rng.urange(5, max_ihl.max(5));
                b[0] = 0x40 | ihl as u8;
                len - ihl * 4
            }
            P::Udp4 | P::Udp6 => {
                // the length field decides what is covered: usually everything, sometimes less than the buffer
                let l = if rng.chance(1, 4) { rng.urange(8, len) } else { len };
                b[4..6].copy_from_slice(&(l as u16).to_be_bytes());
                len - l
            }
            _ => 0,
        }
    };
    let mut forced = false;
    if force_zero {
        // choose the free word so that the covered bytes sum to 0xffff: the computed checksum is then 0x0000
        let w = free_word(p);
        let b = buf.get_mut();
        let cov = p.covered(b);
        if w + 2 <= cov && w + 2 <= b.len() {
            set_field(p, b, 0);
            b[w..w + 2].copy_from_slice(&[0, 0]);
            let s = ref_fold(p.pseudo(&a, cov) + ref_sum(&b[..cov]));
            b[w..w + 2].copy_from_slice(&(0xffff - s).to_be_bytes());
            forced = true;
        }
    }
    let what = format!("{} bytes, alignment {}, content {}, {} uncovered trailing bytes{}", len, align, content_name(c), trailing, if forced { ", contents chosen so that the checksum computes to zero" } else { "" });
    let mut chk = PacketCheck { out, p, a: &a, what };

    // the value the reference expects in the field
    let expected = {
        let mut copy = buf.get().to_vec();
        set_field(p, &mut copy, 0);
        let cov = p.covered(&copy);
        let v = !ref_fold(p.pseudo(&a, cov) + ref_sum(&copy[..cov]));
        if p.is_udp() && v == 0 {
            0xffff
        } else {
            v
        }
    };
    // 1. fill_checksum writes exactly that value (and nothing else changes)
    let before = buf.get().to_vec();
    chk.out.evals += 1;
    if let Err(pi) = catch(|| p.fill(&a, buf.get_mut())) {
        chk.bad("checksum-fill", &before, format!("fill_checksum panicked at {}:{}: {}", pi.file, pi.line, pi.msg));
        return;
    }
    let got = get_field(p, buf.get());
    if forced && expected != if p.is_udp() { 0xffff } else { 0 } {
        chk.out.harness_errors.push(format!("{}: steering the checksum to zero produced {:#06x}", p.name(), expected));
    }
    if forced {
        chk.out.count("zero_checksum_packets", 1);
    }
    if got != expected {
        chk.bad("checksum-field", buf.get(), format!("fill_checksum wrote {:#06x}, RFC 1071 gives {:#06x}", got, expected));
    }
    {
        let mut after = buf.get().to_vec();
        set_field(p, &mut after, get_field(p, &before));
        if after != before {
            chk.bad("checksum-fill-side-effect", buf.get(), "fill_checksum changed bytes outside the checksum field".into());
        }
    }
    // 2. the reference accepts what smoltcp filled in
    if chk.p.ref_verify(&a, buf.get()) == Some(false) {
        chk.bad("checksum-ref-verify", buf.get(), "the RFC 1071 reference rejects the packet smoltcp just checksummed".into());
    }
    // 3./4. verify_checksum on the filled packet and on neighbouring field values
    chk.agree("checksum-verify", buf.get(), "freshly filled");
    set_field(p, buf.get_mut(), expected);
    for k in [1u16, 2, 0x00ff, 0x0100, 0x8000] {
        for v in [expected.wrapping_add(k), expected.wrapping_sub(k)] {
            set_field(p, buf.get_mut(), v);
            chk.agree("checksum-verify", buf.get(), &format!("checksum field set to reference{:+}", v.wrapping_sub(expected) as i16));
        }
    }
    for v in [0u16, 0xffff, !expected] {
        set_field(p, buf.get_mut(), v);
        chk.agree("checksum-verify", buf.get(), &format!("checksum field set to {:#06x}", v));
    }
    set_field(p, buf.get_mut(), expected);
    // 5. single-bit flips inside the covered region ...
    let cov = p.covered(buf.get());
    let total_bits = cov * 8;
    let mut bits: Vec<usize> = if total_bits <= flips { (0..total_bits).collect() } else { (0..flips).map(|_| rng.usize_below(total_bits)).collect() };
    if total_bits > flips {
        // always include the field itself and both ends
        bits.extend([0, 7, p.field() * 8, p.field() * 8 + 15, total_bits - 1, total_bits - 8]);
    }
    for bit in bits {
        let (byte, mask) = (bit / 8, 0x80u8 >> (bit % 8));
        buf.get_mut()[byte] ^= mask;
        // flipping a structural bit may change what is covered; the reference re-reads it like smoltcp does,
        // but a length field that now points outside the buffer is not a checksum question
        let b = buf.get();
        let sane = p.covered(b) <= b.len() && p.covered(b) >= p.field() + 2;
        if sane {
            chk.agree("checksum-verify-bitflip", b, &format!("bit {} of byte {} flipped", bit % 8, byte));
        }
        buf.get_mut()[byte] ^= mask;
    }
    // ... and changes outside it, which must not matter
    if trailing > 0 {
        let at = cov + rng.usize_below(trailing);
        buf.get_mut()[at] ^= 0xff;
        chk.agree("checksum-verify-uncovered", buf.get(), &format!("byte {} behind the covered region inverted", at));
        buf.get_mut()[at] ^= 0xff;
    }
    let name = p.name();
    chk.out.class(format!("packets/{}/{}/{}/align{}", name, content_name(c), if cov % 2 == 1 { "odd" } else { "even" }, align));
    if expected == 0 || expected == 0xffff {
        chk.out.class(format!("packets/{}/field-{:04x}", name, expected));
    }
}

fn packets_case(idx: u64, rng: &mut Rng, _ctx: &Ctx) -> CaseOut {
    let mut out = CaseOut::default();
    let len = idx as usize;
    let big = len > 2048;
    for p in ALL_P {
        if len < p.min_len() {
            continue;
        }
        if p == P::Igmp && len > 64 {
            continue; // IGMP messages are 8 bytes; a little slack is enough
        }
        // beyond 2048 bytes (thorough tier) two alignments per length, rotating with the length
        let rotating = [len % 8, (len + 3) % 8];
        let aligns: &[usize] = if big { &rotating } else { &[0, 1, 2, 3, 4, 5, 6, 7] };
        for &align in aligns {
            let mut contents = vec![Content::Random, Content::Ones];
            if !big {
                contents.push(Content::Zeros);
                contents.push(Content::Single(rng.usize_below(len), *rng.pick(&[0x01u8, 0x80, 0xff])));
                if len >= 16 {
                    let w = *rng.pick(&[2usize, 4, 8]);
                    contents.push(Content::Carry { w, word: rng.usize_below(len / w), v: 1 + rng.below(3) as u8, be: rng.chance(1, 2) });
                    contents.push(Content::Mix { w });
                }
            }
            for c in contents {
                let flips = if len <= 64 { usize::MAX } else if big { 8 } else { 32 };
                packets_one(&mut out, rng, p, len, align, c, flips, false);
            }
            // the special value: a checksum that computes to zero (UDP must send 0xffff instead)
            packets_one(&mut out, rng, p, len, align, Content::Random, 8, true);
        }
    }
    out.count("packet_lengths", 1);
    if idx == 20 {
        out.sample = Some(Json::obj().set("kind", Json::s("fill_checksum / verify_checksum vs reference")).set("protocols", Json::arr(ALL_P.iter().map(|p| Json::s(p.name())))));
    }
    out
}

pub fn monitor() -> super::Monitor {
    super::Monitor {
        id: "C08A",
        rule: RULE,
        assumptions: &[
            "checksum::data and checksum::combine are compared for exact equality with the folded sum (0x0000 only for an all-zero input): end-around-carry arithmetic has this canonical form in either byte order",
            "the length argument of the pseudo-header functions stays within 0..=65535 (IPv6 jumbograms are outside the statement; smoltcp truncates the length to 16 bits)",
            "a received UDP datagram with checksum field 0 must verify over IPv4 (RFC 768: not computed); over IPv6 the answer of UdpPacket::verify_checksum is not constrained here (rejecting it is UdpRepr::parse's job)",
            "IPv4 headers are generated with IHL 5..=15; UDP length fields with 8..=buffer length",
            "bit flips that make a length field point outside the buffer are skipped (the checksum helpers document nothing for that)",
        ],
        floors: &[("data_lengths", 2049), ("data_odd_lengths", 1024), ("packet_lengths", 2049), ("pseudo_lengths", 2049), ("combine_checks", 20_000), ("zero_checksum_packets", 50_000), ("distinct", 150)],
        parts: vec![
            super::Part { name: "data", cases: |c| max_len(c) + 1, f: data_case },
            super::Part { name: "combine", cases: |c| if c.thorough() { 65536 } else { 128 }, f: combine_case },
            super::Part { name: "pseudo", cases: |c| max_len(c) + 1, f: pseudo_case },
            super::Part { name: "packets", cases: |c| max_len(c) + 1, f: packets_case },
        ],
        post: None,
    }
}
