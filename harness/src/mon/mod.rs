//! Monitors, one module per property.
use crate::util::rng::Rng;
use crate::util::run::{CaseOut, Ctx, Summary};

pub mod c03;
pub mod c06;
pub mod c07;
pub mod c08a;
pub mod c08bc;
pub mod c09;
pub mod c09e;
pub mod c10;
pub mod c11;
pub mod c12;
pub mod c13x;
pub mod c14;
pub mod c15;
pub mod c16;
pub mod c18;
pub mod c19;
pub mod c20;
pub mod tcp_pair;
pub mod tcp_peer;
pub mod tcp_sender;

pub struct Part {
    pub name: &'static str,
    pub cases: fn(&Ctx) -> u64,
    pub f: fn(u64, &mut Rng, &Ctx) -> CaseOut,
}

pub struct Monitor {
    pub id: &'static str,
    pub rule: &'static str,
    pub assumptions: &'static [&'static str],
    /// (counter name | "evaluations" | "distinct", minimum) – below: inconclusive
    pub floors: &'static [(&'static str, u64)],
    pub parts: Vec<Part>,
    pub post: Option<fn(&mut Summary)>,
}

pub fn all() -> Vec<Monitor> {
    vec![tcp_pair::monitor_c01(), c02(), tcp_peer::monitor_c04(), c05(), tcp_peer::monitor_c17(), c06::monitor(), c07::monitor(), c08(), c11::monitor(), c13(), c14::monitor(), c15::monitor(), c16::monitor(), c20::monitor(), c03::monitor(), c09::monitor(), c10::monitor(), c12::monitor(), c18::monitor(), c19::monitor()]
}

/// C13 = TCP pair driver (probes built into the simulator) + every other driver with the Host probe
fn c13() -> Monitor {
    let mut m = tcp_pair::monitor_c13();
    m.parts.extend(c13x::parts());
    m
}

/// C08 = (a) checksum routine vs. reference [c08a] + (b) emitted valid and (c) enforced [c08bc]
fn c08() -> Monitor {
    let mut m = c08a::monitor();
    m.id = "C08";
    let bc = c08bc::monitor();
    m.parts.extend(bc.parts);
    let mut floors: Vec<(&'static str, u64)> = m.floors.to_vec();
    floors.extend(bc.floors.iter().filter(|f| f.0 != "distinct" && f.0 != "evaluations").cloned());
    m.floors = Box::leak(floors.into_boxed_slice());
    let mut asm: Vec<&'static str> = m.assumptions.to_vec();
    asm.extend(bc.assumptions.iter().cloned());
    m.assumptions = Box::leak(asm.into_boxed_slice());
    m.rule = Box::leak(format!("(a) {} (b,c) {}", m.rule, bc.rule).into_boxed_str());
    m
}

/// C02 = two-endpoint part + scripted-peer part (a peer that shrinks, closes and reopens its window
/// and acknowledges what it likes: sequence space never acknowledged obliges the socket to a deadline)
fn c02() -> Monitor {
    let mut m = tcp_pair::monitor_c02();
    m.parts.push(Part { name: "scripted-peer", cases: |c| c.n(30_000, 600_000), f: tcp_peer::c02_peer_case });
    let mut floors: Vec<(&'static str, u64)> = m.floors.to_vec();
    floors.push(("owed_retransmission_checks", 200_000));
    m.floors = Box::leak(floors.into_boxed_slice());
    m.rule = Box::leak(format!("{} Scripted-peer part: one socket against a consistent but unhelpful peer (windows that shrink to zero and reopen, arbitrary acceptable ACK numbers, lost segments); (P) after every egress pass: sequence space the socket put on the wire (SYN, data, FIN) that no ACK number the peer ever sent covers implies Interface::poll_at is Some.", m.rule).into_boxed_str());
    m
}

/// C05 = two-endpoint part (i) + scripted-peer part (ii)
fn c05() -> Monitor {
    let mut m = tcp_pair::monitor_c05();
    m.parts.push(Part { name: "scripted-peer", cases: |c| c.n(10_000, 300_000), f: tcp_peer::c05_peer_case });
    m
}
