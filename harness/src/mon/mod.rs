//! Monitors, one module per property.
use crate::util::rng::Rng;
use crate::util::run::{CaseOut, Ctx, Summary};

pub mod c14;
pub mod c15;
pub mod tcp_pair;
pub mod tcp_sender;

pub struct Part {
    pub name: &'static str,
    pub cases: fn(&Ctx) -> u64,
    pub f: fn(u64, &mut Rng, &Ctx) -> CaseOut,
}

pub struct Monitor {
    pub id: &'static str,
    pub rule: &'static str,
    pub assumptions: &'static [&'static str],
    /// (counter name | "evaluations" | "distinct", minimum) – below: inconclusive
    pub floors: &'static [(&'static str, u64)],
    pub parts: Vec<Part>,
    pub post: Option<fn(&mut Summary)>,
}

pub fn all() -> Vec<Monitor> {
    vec![tcp_pair::monitor_c01(), tcp_pair::monitor_c02(), tcp_pair::monitor_c05(), tcp_pair::monitor_c13(), c14::monitor(), c15::monitor()]
}
