//! C09 – datagram sockets preserve message boundaries, order and addressing.
//!
//! One smoltcp host (sim::dgram) with 1..4 UDP / ICMP / raw sockets runs a random
//! program of bind / close / send / send_slice / send_with / recv / recv_slice /
//! peek / peek_slice calls interleaved with polls, inbound datagrams built by
//! `indep`, neighbor resolution that is immediate / late / never and device
//! back-pressure.  Every payload byte is keyed by (case, socket, datagram number,
//! offset), so a frame on the wire or a received datagram identifies the send or
//! the injection that produced it.
//!
//! Egress oracle: per socket the datagrams seen on the wire (IPv4 fragments are
//! reassembled by `indep::x3::frag4`, ordered by their first fragment) must be exactly
//! the accepted sends, in queue order, each once, with destination, ports, source
//! (if requested), hop limit and payload unchanged; datagrams that cannot fit
//! (IPv6 > MTU, IPv4 > fragmentation buffer) never appear; `close` discards.  At
//! quiescence every accepted send whose destination is resolvable and which is
//! not queued behind an unresolvable one has appeared.
//!
//! Ingress oracle: a FIFO model of what MAY and what MUST be in each receive
//! buffer.  A datagram must be there if the socket accepts it and its buffer was
//! empty (or provably has room) when it arrived; every recv/peek result must equal
//! the next model entry (entries that only MAY be present can be absent), with the
//! source endpoint and the destination address it was sent to; a user buffer that
//! is too small must give `Truncated`, never a short copy.
use crate::indep::{ip, Addr};
use crate::indep::x3::{icmp as iicmp, udp as iudp};
use crate::sim::dgram::*;
use crate::sim::*;
use crate::util::json::Json;
use crate::util::rng::Rng;
use crate::util::run::*;
use smoltcp::config::{FRAGMENTATION_BUFFER_SIZE, REASSEMBLY_BUFFER_SIZE};
use smoltcp::iface::SocketHandle;
use smoltcp::phy::PacketMeta;
use smoltcp::socket::{icmp, raw, udp};
use smoltcp::wire::{IpEndpoint, IpListenEndpoint, IpProtocol, IpVersion};
use std::collections::VecDeque;

pub const RULE: &str = "random programs of bind/close/send/send_slice/send_with/recv/recv_slice/peek/peek_slice on udp/icmp/raw sockets (IPv4+IPv6, metadata rings 1..8, payload rings 1..4096) interleaved with polls, inbound datagrams, neighbor resolution immediate/late/never and device back-pressure. egress: per socket the wire carries exactly the accepted sends in queue order, each at most once, byte-exact (payload, destination, ports, requested source, hop limit; IPv4 fragments reassembled independently), never a datagram that was refused, closed away or cannot fit; at quiescence every accepted datagram with a resolvable destination that is not queued behind an unresolvable one has appeared exactly once. ingress: every recv/peek result equals the next datagram of a FIFO may/must model (whole payload, source endpoint, local address = destination it was sent to), never twice, never to two UDP sockets; a datagram is obligatory when the accepting socket's buffer was empty or provably had room; too-small user buffer => Truncated, never a short copy. A class is (direction, socket kind, call, size class, outcome).";

const SEQ_INBOUND: u16 = 0x8000;

#[derive(Clone, Copy, Debug, PartialEq)]
enum Kind {
    Udp,
    Icmp,
    Raw { v6: bool },
    /// raw socket bound to protocol UDP: receive-only observer of every UDP packet
    Sniffer { v6: bool },
}

impl Kind {
    fn name(&self) -> &'static str {
        match self {
            Kind::Udp => "udp",
            Kind::Icmp => "icmp",
            Kind::Raw { .. } => "raw",
            Kind::Sniffer { .. } => "sniffer",
        }
    }
}

#[derive(Clone, Copy, Debug, PartialEq)]
enum TxState {
    Pending,
    Matched,
    /// discarded by close() before it was dispatched: must not appear
    Cancelled,
    /// closed while a datagram may already have been handed to the device: may appear once
    Optional,
    /// could not fit, skipped when a later one appeared
    Dropped,
}

#[derive(Clone, Debug)]
struct SendRec {
    n: u32,
    exp: Expected,
    fits: bool,
    frag: bool,
    resolvable: bool,
    state: TxState,
    api: &'static str,
    at: Micros,
}

/// One datagram as the socket is expected to return it.
#[derive(Clone, Debug)]
struct RxView {
    /// udp: payload; icmp: message; raw: IP payload
    data: Vec<u8>,
    src: Addr,
    sport: u16,
    dst: Addr,
    proto: u8,
    hop: u8,
    /// length as it occupies the receive buffer
    buf_len: usize,
}

#[derive(Clone, Debug)]
struct InRec {
    inb: usize,
    must: bool,
    view: RxView,
}

struct InboundRec {
    desc: String,
    /// some UDP socket is obliged to deliver it (several candidates: checked at the end)
    group_must: bool,
    udp_candidates: Vec<usize>,
    delivered_udp: u32,
}

struct Sock {
    idx: usize,
    kind: Kind,
    handle: SocketHandle,
    tx_slots: usize,
    tx_bytes: usize,
    rx_slots: usize,
    rx_bytes: usize,
    hop: u8,
    bound: Option<(Option<Addr>, u16)>,
    bind_gen: u32,
    ports_used: Vec<u16>,
    ident: u16,
    raw_proto: u8,
    next_n: u32,
    sends: Vec<SendRec>,
    head: usize,
    rxq: VecDeque<InRec>,
    consumed: Vec<RxView>,
}

impl Sock {
    fn v6_only(&self) -> Option<bool> {
        match self.kind {
            Kind::Raw { v6 } | Kind::Sniffer { v6 } => Some(v6),
            Kind::Udp => self.bound.and_then(|(a, _)| a).map(|a| !a.is_v4()),
            Kind::Icmp => None,
        }
    }
    fn hdr_len(&self) -> usize {
        match self.kind {
            Kind::Raw { v6 } | Kind::Sniffer { v6 } => {
                if v6 {
                    40
                } else {
                    20
                }
            }
            _ => 0,
        }
    }
}

struct PendingIn {
    frames: Vec<Vec<u8>>,
    inb: usize,
    dgram: Inbound,
    l4_valid: bool,
    /// IP header and link destination are intact
    deliverable: bool,
    /// IPv4 on a link whose MTU is below the size of an ICMP error
    risky: bool,
}

#[derive(Clone, Copy, Debug, PartialEq)]
enum RxOp {
    Recv,
    RecvSlice,
    Peek,
    PeekSlice,
}

impl RxOp {
    fn name(&self) -> &'static str {
        match self {
            RxOp::Recv => "recv",
            RxOp::RecvSlice => "recv_slice",
            RxOp::Peek => "peek",
            RxOp::PeekSlice => "peek_slice",
        }
    }
    fn consumes(&self) -> bool {
        matches!(self, RxOp::Recv | RxOp::RecvSlice)
    }
}

enum RxRes {
    Ok { data: Vec<u8>, src: Option<Addr>, sport: u16, local: Option<Addr> },
    Exhausted,
    Truncated,
}

#[derive(Debug, PartialEq)]
enum TxRes {
    Ok,
    Full,
    Unaddressable,
}

fn size_class(n: usize, cap: usize) -> &'static str {
    if n == 0 {
        "0"
    } else if n > cap {
        ">cap"
    } else if n == cap {
        "=cap"
    } else if n <= 8 {
        "tiny"
    } else if n * 2 > cap {
        ">half"
    } else {
        "mid"
    }
}

struct Case<'a> {
    out: CaseOut,
    rng: &'a mut Rng,
    verbose: bool,
    tag: u64,
    cfg: NetCfg,
    host: Host,
    net: Net,
    wire: Wire,
    now: Micros,
    socks: Vec<Sock>,
    inbound: Vec<InboundRec>,
    inq: Vec<PendingIn>,
    next_ident: u16,
    peers: Vec<Peer>,
    use_never: bool,
    history: Vec<String>,
    stats: Stats,
}

#[derive(Default, Debug, Clone)]
struct Stats {
    sends_accepted: u64,
    sends_refused_full: u64,
    sends_refused_unaddressable: u64,
    egress_matched: u64,
    egress_fragmented: u64,
    egress_dropped_oversize: u64,
    egress_blocked_unresolvable: u64,
    injected: u64,
    injected_invalid: u64,
    injected_fragmented: u64,
    rx_delivered: u64,
    rx_must: u64,
    rx_may_absent: u64,
    rx_truncated: u64,
    rx_exhausted: u64,
    peeks: u64,
    closes: u64,
    binds: u64,
    polls: u64,
    polls_blocked: u64,
    polls_capped: u64,
    stack_generated: u64,
}

impl<'a> Case<'a> {
    fn log(&mut self, s: String) {
        if self.verbose {
            println!("[{:>10}us] {}", self.now, s);
        }
        if self.history.len() < 400 {
            self.history.push(format!("t={} {}", self.now, s));
        }
    }

    fn recent(&self, n: usize) -> String {
        let k = self.history.len().saturating_sub(n);
        self.history[k..].join(" | ")
    }

    fn violate(&mut self, sig: String, desc: String) {
        if self.verbose {
            println!("  VIOLATION [{}] {}", sig, desc);
        }
        let ctx = format!(
            "{} ; link {} ip_mtu {} ; last steps: {}",
            desc,
            if self.cfg.ethernet { "ethernet" } else { "ip" },
            self.cfg.ip_mtu,
            self.recent(14)
        );
        let socks: Vec<Json> = self
            .socks
            .iter()
            .map(|s| {
                Json::s(format!(
                    "#{} {} tx {}x{} rx {}x{} bound {:?} ident {:#x} proto {}",
                    s.idx,
                    s.kind.name(),
                    s.tx_slots,
                    s.tx_bytes,
                    s.rx_slots,
                    s.rx_bytes,
                    s.bound.map(|(a, p)| format!("{}:{}", a.map(|a| a.to_string()).unwrap_or("*".into()), p)),
                    s.ident,
                    s.raw_proto
                ))
            })
            .collect();
        self.out.violate(Violation::new(sig, ctx).with(Json::obj().set("sockets", Json::Arr(socks))));
    }

    // ------------------------------------------------------------ socket calls

    fn call_send(&mut self, si: usize, api: &'static str, data: &[u8], extra: usize, dst: Addr, dport: u16, local: Option<Addr>) -> TxRes {
        let h = self.socks[si].handle;
        let size = data.len();
        match self.socks[si].kind {
            Kind::Udp => {
                let s = self.host.sockets.get_mut::<udp::Socket>(h);
                let meta = udp::UdpMetadata { endpoint: IpEndpoint::new(dst.to_smol(), dport), local_address: local.map(|a| a.to_smol()), meta: PacketMeta::default() };
                let r = match api {
                    "send" => s.send(size, meta).map(|b| b.copy_from_slice(data)),
                    "send_slice" => s.send_slice(data, meta),
                    _ => s
                        .send_with(size + extra, meta, |b| {
                            b[..size].copy_from_slice(data);
                            size
                        })
                        .map(|_| ()),
                };
                match r {
                    Ok(()) => TxRes::Ok,
                    Err(udp::SendError::BufferFull) => TxRes::Full,
                    Err(udp::SendError::Unaddressable) => TxRes::Unaddressable,
                }
            }
            Kind::Icmp => {
                let s = self.host.sockets.get_mut::<icmp::Socket>(h);
                let a = dst.to_smol();
                let r = match api {
                    "send" => s.send(size, a).map(|b| b.copy_from_slice(data)),
                    "send_slice" => s.send_slice(data, a),
                    _ => s
                        .send_with(size + extra, a, |b| {
                            b[..size].copy_from_slice(data);
                            size
                        })
                        .map(|_| ()),
                };
                match r {
                    Ok(()) => TxRes::Ok,
                    Err(icmp::SendError::BufferFull) => TxRes::Full,
                    Err(icmp::SendError::Unaddressable) => TxRes::Unaddressable,
                }
            }
            Kind::Raw { .. } | Kind::Sniffer { .. } => {
                let s = self.host.sockets.get_mut::<raw::Socket>(h);
                let r = match api {
                    "send" => s.send(size).map(|b| b.copy_from_slice(data)),
                    "send_slice" => s.send_slice(data),
                    _ => s
                        .send_with(size + extra, |b| {
                            b[..size].copy_from_slice(data);
                            size
                        })
                        .map(|_| ()),
                };
                match r {
                    Ok(()) => TxRes::Ok,
                    Err(raw::SendError::BufferFull) => TxRes::Full,
                }
            }
        }
    }

    fn call_recv(&mut self, si: usize, op: RxOp, k: usize) -> RxRes {
        let h = self.socks[si].handle;
        let mut buf = vec![0xEEu8; k];
        match self.socks[si].kind {
            Kind::Udp => {
                let s = self.host.sockets.get_mut::<udp::Socket>(h);
                let conv = |d: Vec<u8>, m: udp::UdpMetadata| RxRes::Ok {
                    data: d,
                    src: Some(Addr::from_smol(m.endpoint.addr)),
                    sport: m.endpoint.port,
                    local: m.local_address.map(Addr::from_smol),
                };
                let r = match op {
                    RxOp::Recv => s.recv().map(|(d, m)| (d.to_vec(), m)),
                    RxOp::RecvSlice => s.recv_slice(&mut buf).map(|(n, m)| (buf[..n.min(k)].to_vec(), m)),
                    RxOp::Peek => s.peek().map(|(d, m)| (d.to_vec(), *m)),
                    RxOp::PeekSlice => s.peek_slice(&mut buf).map(|(n, m)| (n, *m)).map(|(n, m)| (buf[..n.min(k)].to_vec(), m)),
                };
                match r {
                    Ok((d, m)) => conv(d, m),
                    Err(udp::RecvError::Exhausted) => RxRes::Exhausted,
                    Err(udp::RecvError::Truncated) => RxRes::Truncated,
                }
            }
            Kind::Icmp => {
                let s = self.host.sockets.get_mut::<icmp::Socket>(h);
                let r = match op {
                    RxOp::RecvSlice => s.recv_slice(&mut buf).map(|(n, a)| (buf[..n.min(k)].to_vec(), a)),
                    _ => s.recv().map(|(d, a)| (d.to_vec(), a)),
                };
                match r {
                    Ok((d, a)) => RxRes::Ok { data: d, src: Some(Addr::from_smol(a)), sport: 0, local: None },
                    Err(icmp::RecvError::Exhausted) => RxRes::Exhausted,
                    Err(icmp::RecvError::Truncated) => RxRes::Truncated,
                }
            }
            Kind::Raw { .. } | Kind::Sniffer { .. } => {
                let s = self.host.sockets.get_mut::<raw::Socket>(h);
                let r = match op {
                    RxOp::Recv => s.recv().map(|d| d.to_vec()),
                    RxOp::RecvSlice => s.recv_slice(&mut buf).map(|n| buf[..n.min(k)].to_vec()),
                    RxOp::Peek => s.peek().map(|d| d.to_vec()),
                    RxOp::PeekSlice => s.peek_slice(&mut buf).map(|n| buf[..n.min(k)].to_vec()),
                };
                match r {
                    Ok(d) => RxRes::Ok { data: d, src: None, sport: 0, local: None },
                    Err(raw::RecvError::Exhausted) => RxRes::Exhausted,
                    Err(raw::RecvError::Truncated) => RxRes::Truncated,
                }
            }
        }
    }

    /// (can_recv, recv_queue bytes)
    fn rx_state(&mut self, si: usize) -> (bool, usize) {
        let h = self.socks[si].handle;
        match self.socks[si].kind {
            Kind::Udp => {
                let s = self.host.sockets.get::<udp::Socket>(h);
                (s.can_recv(), s.recv_queue())
            }
            Kind::Icmp => {
                let s = self.host.sockets.get::<icmp::Socket>(h);
                (s.can_recv(), s.recv_queue())
            }
            _ => {
                let s = self.host.sockets.get::<raw::Socket>(h);
                (s.can_recv(), s.recv_queue())
            }
        }
    }

    // ------------------------------------------------------------ program steps

    fn outstanding_fragmented(&self) -> bool {
        self.wire.reasm.pending() > 0
            || self.wire.held_count() > 0
            || self.socks.iter().any(|s| s.sends.iter().any(|r| r.frag && matches!(r.state, TxState::Pending | TxState::Optional)))
    }

    fn pick_dst(&mut self, v6: bool) -> (Addr, bool) {
        // (address, resolvable)
        let r = self.rng.below(20);
        if r == 0 && !v6 {
            return (if self.rng.bool() { LIMITED_BROADCAST } else { SUBNET_BROADCAST }, true);
        }
        if r == 1 {
            return (if v6 { ALL_NODES_V6 } else { ALL_SYSTEMS_V4 }, true);
        }
        if r == 2 && self.use_never && self.cfg.ethernet {
            return (self.peers[PEER_NEVER].addr(v6), false);
        }
        let p = self.rng.usize_below(3);
        (self.peers[p].addr(v6), true)
    }

    fn step_send(&mut self, si: usize) {
        let kind = self.socks[si].kind;
        if matches!(kind, Kind::Sniffer { .. }) {
            return;
        }
        let api: &'static str = *self.rng.pick(&["send", "send_slice", "send_with"]);
        let v6 = match self.socks[si].v6_only() {
            Some(f) => f,
            None => self.rng.bool(),
        };
        let (mut dst, mut resolvable) = self.pick_dst(v6);
        let n = self.socks[si].next_n;
        let cap = self.socks[si].tx_bytes;
        let iphdr = if v6 { 40 } else { 20 };
        // header bytes between the IP header and the keyed payload / in the socket buffer
        let (l4hdr, bufhdr) = match kind {
            Kind::Udp => (8, 0),
            Kind::Icmp => (8, 8),
            _ => (0, iphdr),
        };
        let mut size = self.rng.sizeish(cap + 4); // size as it occupies the socket buffer
        if size < bufhdr {
            // (if the ring cannot hold even a header every send is refused)
            size = bufhdr;
        }
        let mut plen = size - bufhdr;
        // at most one fragmented datagram in flight (back-to-back is C12's subject)
        let mut total = iphdr + l4hdr + plen;
        if !v6 && total > self.cfg.ip_mtu && total <= FRAGMENTATION_BUFFER_SIZE && self.outstanding_fragmented() {
            plen = self.rng.urange(0, self.cfg.ip_mtu - iphdr - l4hdr);
            size = plen + bufhdr;
            total = iphdr + l4hdr + plen;
        }
        // destination ports are disjoint per socket: two UDP sockets sharing a local port never
        // produce byte-identical datagrams (the wire attribution stays unambiguous)
        let mut dport = 7000 + 60 * si as u16 + self.rng.range(0, 50) as u16;
        let mut local = None;
        let mut want_unaddressable = false;
        let pl = payload(self.tag, si, n, plen);
        let hop;
        let data: Vec<u8>;
        let exp: Expected;
        match kind {
            Kind::Udp => {
                hop = self.socks[si].hop;
                let bound = self.socks[si].bound;
                if bound.is_none() {
                    want_unaddressable = true;
                } else if self.rng.chance(1, 25) {
                    want_unaddressable = true;
                    if self.rng.bool() {
                        dport = 0;
                    } else {
                        dst = if v6 { Addr::V6([0; 16]) } else { Addr::V4([0; 4]) };
                    }
                }
                if self.rng.chance(1, 5) {
                    local = Some(host_addr(v6));
                }
                let src = local.or(bound.and_then(|(a, _)| a));
                data = pl.clone();
                exp = Expected { proto: ip::PROTO_UDP, src, dst, hop, body: Body::Udp { sport: bound.map(|b| b.1).unwrap_or(0), dport, payload: pl } };
            }
            Kind::Icmp => {
                hop = self.socks[si].hop;
                let reply = self.rng.chance(1, 3);
                let ident = self.socks[si].ident;
                let seq = (n as u16) & 0x7fff;
                let mut msg = if v6 {
                    iicmp::build6(&host_addr(true), &dst, if reply { iicmp::V6_ECHO_REPLY } else { iicmp::V6_ECHO_REQUEST }, 0, ident, seq, &pl)
                } else {
                    iicmp::build4(if reply { iicmp::V4_ECHO_REPLY } else { iicmp::V4_ECHO_REQUEST }, 0, ident, seq, &pl)
                };
                if self.rng.bool() {
                    // the application need not fill in the checksum
                    msg[2] = self.rng.u8();
                    msg[3] = self.rng.u8();
                }
                data = msg.clone();
                exp = Expected { proto: if v6 { ip::PROTO_ICMPV6 } else { ip::PROTO_ICMP }, src: None, dst, hop, body: Body::Icmp { msg } };
            }
            Kind::Raw { .. } => {
                hop = self.rng.range(1, 255) as u8;
                let src = if self.rng.chance(1, 6) {
                    if v6 {
                        a6(0xfd00, 0x77)
                    } else {
                        a4(192, 168, 1, 77)
                    }
                } else {
                    host_addr(v6)
                };
                let proto = self.socks[si].raw_proto;
                data = match (&src, &dst) {
                    (Addr::V4(s), Addr::V4(d)) => ip::build_v4(s, d, proto, hop, self.rng.u16(), self.rng.bool(), false, 0, &pl),
                    _ => ip::build(&src, &dst, proto, hop, &pl),
                };
                exp = Expected { proto, src: Some(src), dst, hop, body: Body::Raw { payload: pl } };
            }
            Kind::Sniffer { .. } => unreachable!(),
        }
        if want_unaddressable {
            resolvable = false;
        }
        let extra = if api == "send_with" { self.rng.urange(0, 8) } else { 0 };
        let r = self.call_send(si, api, &data, extra, dst, dport, local);
        let fits = if v6 { total <= self.cfg.ip_mtu } else { total <= self.cfg.ip_mtu || total <= FRAGMENTATION_BUFFER_SIZE };
        let frag = !v6 && total > self.cfg.ip_mtu && fits;
        self.log(format!(
            "sock#{} {}.{}(len {}{}) -> {}:{}{} = {:?}",
            si,
            kind.name(),
            api,
            data.len(),
            if extra > 0 { format!(", max {}", data.len() + extra) } else { String::new() },
            dst,
            dport,
            local.map(|a| format!(" from {}", a)).unwrap_or_default(),
            r
        ));
        let sc = size_class(size, cap);
        match r {
            TxRes::Ok => {
                if want_unaddressable {
                    self.violate(
                        format!("send:{}:accepted-unaddressable", kind.name()),
                        format!("sock#{} {} accepted a datagram for {}:{} (unbound socket, unspecified address or port 0)", si, api, dst, dport),
                    );
                    return;
                }
                if size + extra > cap {
                    self.violate(
                        format!("send:{}:accepted-beyond-capacity", kind.name()),
                        format!("sock#{} {} accepted {} bytes although the payload ring holds {}", si, api, size + extra, cap),
                    );
                }
                self.stats.sends_accepted += 1;
                self.out.class(format!("tx:{}:{}:{}:{}", kind.name(), api, sc, if !fits { "too-big" } else if frag { "fragmented" } else if !resolvable { "unresolvable" } else { "plain" }));
                self.socks[si].next_n += 1;
                let at = self.now;
                self.socks[si].sends.push(SendRec { n, exp, fits, frag, resolvable, state: TxState::Pending, api, at });
            }
            TxRes::Full => {
                self.stats.sends_refused_full += 1;
                self.out.class(format!("tx:{}:{}:{}:refused-full", kind.name(), api, sc));
                self.socks[si].next_n += 1; // the number is burnt: a refused datagram must never appear
            }
            TxRes::Unaddressable => {
                self.stats.sends_refused_unaddressable += 1;
                self.out.class(format!("tx:{}:{}:unaddressable", kind.name(), api));
                if !want_unaddressable {
                    self.violate(
                        format!("send:{}:refused-addressable", kind.name()),
                        format!("sock#{} {} to {}:{} was refused as unaddressable although the socket is bound and the endpoint is specified", si, api, dst, dport),
                    );
                }
                self.socks[si].next_n += 1;
            }
        }
        self.out.evals += 1;
    }

    fn step_bind_close(&mut self, si: usize) {
        if self.socks[si].kind != Kind::Udp {
            return;
        }
        let h = self.socks[si].handle;
        if self.socks[si].bound.is_some() && self.rng.chance(2, 3) {
            // close: queued datagrams are discarded; one that was already handed to the
            // device (fragments in flight) may still complete
            let started = self.wire.reasm.pending() + self.wire.held_count();
            self.host.sockets.get_mut::<udp::Socket>(h).close();
            self.stats.closes += 1;
            let mut optional_left = started;
            let s = &mut self.socks[si];
            for r in s.sends.iter_mut() {
                if r.state == TxState::Pending {
                    // (one that cannot fit is never handed to the device)
                    if optional_left > 0 && r.fits {
                        optional_left -= 1;
                        r.state = TxState::Optional;
                    } else {
                        r.state = TxState::Cancelled;
                    }
                }
            }
            let dropped: Vec<usize> = s.rxq.iter().map(|e| e.inb).collect();
            s.rxq.clear();
            s.bound = None;
            for i in dropped {
                self.inbound[i].group_must = false;
            }
            self.out.class("op:udp:close");
            self.log(format!("sock#{} close()", si));
            return;
        }
        // bind (also on an open socket: must be refused)
        let was_bound = self.socks[si].bound;
        let addr = match self.rng.below(3) {
            0 => Some(host_addr(false)),
            1 => Some(host_addr(true)),
            _ => None,
        };
        // sometimes share the port of another UDP socket (first-match-only delivery)
        let mut port = 4000 + (si as u16) * 50 + self.socks[si].bind_gen as u16;
        if self.rng.chance(1, 4) {
            let others: Vec<u16> = self.socks.iter().filter(|o| o.idx != si && o.kind == Kind::Udp).filter_map(|o| o.bound.map(|b| b.1)).collect();
            if !others.is_empty() {
                port = *self.rng.pick(&others);
            }
        }
        let zero = self.rng.chance(1, 20);
        let ep = IpListenEndpoint { addr: addr.map(|a| a.to_smol()), port: if zero { 0 } else { port } };
        let r = self.host.sockets.get_mut::<udp::Socket>(h).bind(ep);
        self.stats.binds += 1;
        self.log(format!("sock#{} bind({}:{}) = {:?}", si, addr.map(|a| a.to_string()).unwrap_or("*".into()), ep.port, r));
        self.out.evals += 1;
        match r {
            Ok(()) => {
                if zero || was_bound.is_some() {
                    self.violate(
                        "bind:udp:accepted-illegal".into(),
                        format!("sock#{} bind to port {} succeeded although {}", si, ep.port, if zero { "the port is zero" } else { "the socket was already open" }),
                    );
                }
                let s = &mut self.socks[si];
                s.bound = Some((addr, port));
                s.bind_gen += 1;
                if !s.ports_used.contains(&port) {
                    s.ports_used.push(port);
                }
                self.out.class(format!("op:udp:bind:{}", if addr.is_some() { "addr" } else { "any" }));
            }
            Err(_) => {
                if !zero && was_bound.is_none() {
                    self.violate("bind:udp:refused-legal".into(), format!("sock#{} bind to port {} was refused on a closed socket", si, port));
                }
                self.out.class("op:udp:bind:refused");
            }
        }
    }

    // ------------------------------------------------------------ ingress

    /// Would socket `s` accept this inbound datagram?  None = no; Some(view).
    fn accepts(&self, s: &Sock, inb: &Inbound, l4_valid: bool) -> Option<RxView> {
        let v6 = !inb.src.is_v4();
        let to_host = host_accepts_dst(&inb.dst);
        match s.kind {
            Kind::Raw { v6: sv6 } | Kind::Sniffer { v6: sv6 } => {
                if sv6 != v6 || s.raw_proto != inb.proto {
                    return None;
                }
                if !to_host && v6 {
                    return None;
                }
                Some(RxView { data: inb.l4.clone(), src: inb.src, sport: 0, dst: inb.dst, proto: inb.proto, hop: inb.hop, buf_len: s.hdr_len() + inb.l4.len() })
            }
            Kind::Udp => {
                if !to_host || !l4_valid || inb.proto != ip::PROTO_UDP {
                    return None;
                }
                let (baddr, bport) = s.bound?;
                let u = iudp::parse(&inb.src, &inb.dst, &inb.l4).ok()?;
                if u.dport != bport {
                    return None;
                }
                if let Some(a) = baddr {
                    // a bound socket also takes broadcast / multicast datagrams, of its own address family
                    if a.is_v4() != inb.dst.is_v4() {
                        return None;
                    }
                    let bm = inb.dst == LIMITED_BROADCAST || inb.dst == SUBNET_BROADCAST || inb.dst.is_multicast();
                    if a != inb.dst && !bm {
                        return None;
                    }
                }
                let len = u.payload.len();
                Some(RxView { data: u.payload, src: inb.src, sport: u.sport, dst: inb.dst, proto: inb.proto, hop: inb.hop, buf_len: len })
            }
            Kind::Icmp => {
                if !to_host || !l4_valid {
                    return None;
                }
                let m = if v6 {
                    if inb.proto != ip::PROTO_ICMPV6 {
                        return None;
                    }
                    iicmp::parse6(&inb.src, &inb.dst, &inb.l4).ok()?
                } else {
                    if inb.proto != ip::PROTO_ICMP {
                        return None;
                    }
                    iicmp::parse4(&inb.l4).ok()?
                };
                if !m.is_echo() || m.ident != s.ident {
                    return None;
                }
                Some(RxView { data: inb.l4.clone(), src: inb.src, sport: 0, dst: inb.dst, proto: inb.proto, hop: inb.hop, buf_len: inb.l4.len() })
            }
        }
    }

    fn takers(&self, inb: &Inbound, l4_valid: bool) -> Vec<(usize, RxView, bool)> {
        let mut t = Vec::new();
        for s in &self.socks {
            if let Some(v) = self.accepts(s, inb, l4_valid) {
                // IPv4 raw sockets also see packets that are not addressed to the host (not an obligation)
                t.push((s.idx, v, host_accepts_dst(&inb.dst)));
            }
        }
        t
    }

    /// Would the stack answer this datagram with an ICMP error (port / protocol unreachable)?
    fn provokes_error(&self, inb: &Inbound, takers: &[(usize, RxView, bool)]) -> bool {
        if inb.proto == ip::PROTO_ICMP || inb.proto == ip::PROTO_ICMPV6 {
            return false;
        }
        !takers.iter().any(|(i, _, _)| match self.socks[*i].kind {
            Kind::Udp => true,
            Kind::Raw { .. } | Kind::Sniffer { .. } => true,
            Kind::Icmp => false,
        })
    }

    fn inq_l4_peek(&self, inb: &Inbound) -> Vec<u8> {
        inb.l4.iter().take(12).cloned().collect()
    }

    fn step_inject(&mut self) {
        // pick a target socket (or nobody) and a flavour
        let flavour = self.rng.below(20); // 0..13 valid for a socket, 14..16 for nobody, 17..19 invalid
        let si = self.rng.usize_below(self.socks.len());
        let (kind, rx_bytes, ident, raw_proto, bound, hdr) = {
            let s = &self.socks[si];
            (s.kind, s.rx_bytes, s.ident, s.raw_proto, s.bound, s.hdr_len())
        };
        let v6 = match self.socks[si].v6_only() {
            Some(f) => f,
            None => self.rng.bool(),
        };
        let peer = self.peers[self.rng.usize_below(3)].clone();
        let src = peer.addr(v6);
        let mut dst = host_addr(v6);
        match self.rng.below(12) {
            0 if !v6 => dst = LIMITED_BROADCAST,
            1 if !v6 => dst = SUBNET_BROADCAST,
            2 => dst = if v6 { ALL_NODES_V6 } else { ALL_SYSTEMS_V4 },
            _ => {}
        }
        let n = self.inbound.len() as u32;
        let iphdr = if v6 { 40 } else { 20 };
        // size as it will occupy the receive buffer, occasionally beyond its capacity
        let want_buf = self.rng.sizeish(rx_bytes + 6);
        let nobody = (14..17).contains(&flavour);
        let invalid = flavour >= 17;
        // every inbound datagram is unique even when its payload is empty: source port (UDP),
        // sequence number (ICMP) and hop limit (raw) are derived from the injection number
        let hop = 1 + (n % 255) as u8;
        let max_l4 = if v6 { self.cfg.ip_mtu - 40 } else { 3000usize.min(REASSEMBLY_BUFFER_SIZE + 64) };
        // random choices of the builders
        let with_ck = v6 || !self.rng.chance(1, 6);
        let sport = 9000 + (n % 1000) as u16;
        let want_request = self.rng.chance(1, 3);
        let other_ports: Vec<u16> = self.socks.iter().filter_map(|o| if o.kind == Kind::Udp { o.bound.map(|b| b.1) } else { None }).collect();
        let sniff_port = if other_ports.is_empty() || self.rng.chance(1, 3) { 3999 } else { *self.rng.pick(&other_ports) };
        let tag = self.tag ^ 0x1B;
        let ip_mtu = self.cfg.ip_mtu;
        let build = |plen_cap: usize| -> (u8, Vec<u8>, String) {
            match kind {
                Kind::Udp | Kind::Sniffer { .. } => {
                    let dport = if nobody {
                        3999
                    } else {
                        match (kind, bound) {
                            (Kind::Udp, Some((_, p))) => p,
                            (Kind::Udp, None) => 3999,
                            _ => sniff_port,
                        }
                    };
                    let plen = want_buf.saturating_sub(hdr).min(max_l4.saturating_sub(8)).min(plen_cap);
                    let pl = payload(tag, si, n, plen);
                    (
                        ip::PROTO_UDP,
                        iudp::build(&src, &dst, sport, dport, &pl, with_ck),
                        format!("UDP {}:{} -> {}:{} payload[{}]{}", src, sport, dst, dport, plen, if with_ck { "" } else { " (zero checksum)" }),
                    )
                }
                Kind::Icmp => {
                    let id = if nobody { 0x7777 } else { ident };
                    let plen = want_buf.saturating_sub(8).min(max_l4.saturating_sub(8)).min(plen_cap);
                    let pl = payload(tag, si, n, plen);
                    // an echo request is answered by the stack: keep the answer inside the MTU
                    let request = want_request && iphdr + 8 + plen <= ip_mtu;
                    let seq = SEQ_INBOUND | (n as u16 & 0x7fff);
                    let m = if v6 {
                        iicmp::build6(&src, &dst, if request { iicmp::V6_ECHO_REQUEST } else { iicmp::V6_ECHO_REPLY }, 0, id, seq, &pl)
                    } else {
                        iicmp::build4(if request { iicmp::V4_ECHO_REQUEST } else { iicmp::V4_ECHO_REPLY }, 0, id, seq, &pl)
                    };
                    (
                        if v6 { ip::PROTO_ICMPV6 } else { ip::PROTO_ICMP },
                        m,
                        format!("ICMP echo {} {} -> {} ident {:#x} seq {:#x} data[{}]", if request { "request" } else { "reply" }, src, dst, id, seq, plen),
                    )
                }
                Kind::Raw { .. } => {
                    let proto = if nobody { 199 } else { raw_proto };
                    let plen = want_buf.saturating_sub(hdr).min(max_l4).min(plen_cap);
                    (proto, payload(tag, si, n, plen), format!("raw proto {} {} -> {} payload[{}]", proto, src, dst, plen))
                }
            }
        };
        let (proto, l4, mut desc) = build(usize::MAX);
        let mut inb = Inbound { src, dst, proto, hop, l4, src_mac: peer.link_mac() };
        // datagrams nobody takes are bounced with an ICMP error: that error must fit the MTU
        // unfragmented (at most one fragmented datagram in flight), so keep them small
        let risky = !v6 && self.cfg.ip_mtu < 576;
        if risky && self.provokes_error(&inb, &self.takers(&inb, true)) {
            let (p2, l2, d2) = build(24);
            inb.proto = p2;
            inb.l4 = l2;
            desc = d2;
        }
        let mut l4_valid = true;
        let mut ip_valid = true;
        let mut bad_mac = false;
        if invalid {
            match self.rng.below(4) {
                0 if proto != raw_proto || matches!(kind, Kind::Sniffer { .. }) => {
                    // corrupt one byte: the transport checksum no longer verifies
                    let l = inb.l4.len();
                    let i = if l > 8 { self.rng.urange(8, l - 1) } else { 1 };
                    inb.l4[i] ^= 0x40;
                    if proto == ip::PROTO_UDP && !v6 && crate::indep::be16(&inb.l4, 6) == 0 {
                        inb.l4[6] = 0x12; // a zero UDP checksum on IPv4 would not notice
                    }
                    // (the arbitrary checksum written over a zero one is right once in 65535 times: ask indep)
                    l4_valid = proto == ip::PROTO_UDP && iudp::parse(&inb.src, &inb.dst, &inb.l4).map(|u| u.checksum_ok).unwrap_or(false);
                    desc.push_str(" [transport checksum broken]");
                }
                1 if !v6 => {
                    ip_valid = false;
                    desc.push_str(" [IPv4 header checksum broken]");
                }
                2 => {
                    inb.dst = if v6 { a6(0xfd00, 0x55) } else { a4(192, 168, 1, 55) };
                    desc.push_str(&format!(" [re-addressed to {} which is not the host]", inb.dst));
                }
                _ if self.cfg.ethernet => {
                    bad_mac = true;
                    desc.push_str(" [Ethernet destination is another station]");
                }
                _ => {}
            }
        }
        // frames (IPv4 may arrive fragmented, in order)
        let ipid = self.next_ident;
        self.next_ident = self.next_ident.wrapping_add(1);
        let total = iphdr + inb.l4.len();
        let mut cuts: Vec<usize> = Vec::new();
        if !v6 && ip_valid {
            if total > self.cfg.ip_mtu {
                cuts = crate::indep::x3::frag4::cuts_for_mtu(inb.l4.len(), 20, self.cfg.ip_mtu).unwrap_or_default();
            } else if inb.l4.len() > 16 && self.rng.chance(1, 5) {
                let pieces = self.rng.urange(2, 4);
                let mut c: Vec<usize> = (0..pieces - 1).map(|_| 8 * self.rng.urange(1, (inb.l4.len() - 1) / 8)).collect();
                c.sort();
                c.dedup();
                cuts = c;
            }
        }
        let mut frames = match frames_for(&self.cfg, &inb, ipid, &cuts) {
            Ok(f) => f,
            Err(e) => {
                self.out.harness_errors.push(format!("cannot build inbound frames: {}", e));
                return;
            }
        };
        if !ip_valid {
            let off = if self.cfg.ethernet { 14 } else { 0 };
            for f in frames.iter_mut() {
                f[off + 10] ^= 0x01;
            }
        }
        if bad_mac {
            for f in frames.iter_mut() {
                f[..6].copy_from_slice(&[0x02, 0, 0, 0, 9, 9]);
            }
        }
        if !cuts.is_empty() {
            self.stats.injected_fragmented += 1;
            desc.push_str(&format!(" in {} fragments (cuts {:?})", cuts.len() + 1, cuts));
        }
        let idx = self.inbound.len();
        self.inbound.push(InboundRec { desc: desc.clone(), group_must: false, udp_candidates: Vec::new(), delivered_udp: 0 });
        self.stats.injected += 1;
        if invalid {
            self.stats.injected_invalid += 1;
        }
        self.log(format!("inject #{}: {} ; L4 header {}", idx, desc, hex_cap(&self.inq_l4_peek(&inb), 12)));
        self.out.class(format!(
            "in:{}:{}:{}:{}",
            kind.name(),
            if v6 { "v6" } else { "v4" },
            if invalid { "invalid" } else if nobody { "nobody" } else { "valid" },
            if cuts.is_empty() { "whole" } else { "fragmented" }
        ));
        self.inq.push(PendingIn { frames, inb: idx, dgram: inb, l4_valid, deliverable: ip_valid && !bad_mac, risky });
    }

    /// The queued inbound datagrams reach the device now: who takes them is decided
    /// by the socket states of this moment, and the obligations are fixed.
    fn arm_inbound(&mut self) {
        let pend = std::mem::take(&mut self.inq);
        let mut first_for_sock: Vec<bool> = vec![true; self.socks.len()];
        for p in pend {
            let targets = if p.deliverable { self.takers(&p.dgram, p.l4_valid) } else { Vec::new() };
            if p.risky && p.l4_valid && p.deliverable && p.dgram.l4.len() > 32 && self.provokes_error(&p.dgram, &targets) {
                // its taker was closed meanwhile: the stack would bounce it with an ICMP error larger
                // than the MTU (a second fragmented datagram in flight): the peer does not send it
                self.log(format!("inbound #{} withdrawn (its socket was closed meanwhile)", p.inb));
                continue;
            }
            let n_udp = targets.iter().filter(|(i, _, _)| self.socks[*i].kind == Kind::Udp).count();
            self.inbound[p.inb].udp_candidates = targets.iter().filter(|(i, _, _)| self.socks[*i].kind == Kind::Udp).map(|(i, _, _)| *i).collect();
            let mut all_udp_can_hold = true;
            for (si, view, firm) in &targets {
                let (can_recv, queued) = self.rx_state(*si);
                let s = &self.socks[*si];
                let fits_cap = view.buf_len <= s.rx_bytes;
                let empty_rule = !can_recv && s.rxq.is_empty();
                let room_rule = 2 * view.buf_len <= s.rx_bytes.saturating_sub(queued) && 2 * s.rxq.len() + 2 <= s.rx_slots;
                // reassembly is only promised up to the configured buffer
                let reasm_ok = p.frames.len() == 1 || p.dgram.l4.len() <= REASSEMBLY_BUFFER_SIZE;
                let can_hold = fits_cap && first_for_sock[*si] && (empty_rule || room_rule) && reasm_ok && *firm;
                let is_udp = s.kind == Kind::Udp;
                if is_udp && !can_hold {
                    all_udp_can_hold = false;
                }
                let must = can_hold && !(is_udp && n_udp > 1);
                first_for_sock[*si] = false;
                if self.verbose {
                    println!("      inbound #{} for sock#{}: {} (buffer bytes {}, queued {}, can_recv {})", p.inb, si, if must { "MUST be delivered" } else { "may be delivered" }, view.buf_len, queued, can_recv);
                }
                if must {
                    self.stats.rx_must += 1;
                }
                self.socks[*si].rxq.push_back(InRec { inb: p.inb, must, view: view.clone() });
            }
            if n_udp > 1 && all_udp_can_hold {
                self.inbound[p.inb].group_must = true;
                self.stats.rx_must += 1;
            }
            for f in p.frames {
                self.host.dev.rx.push_back(f);
            }
        }
    }

    fn view_matches(&self, kind: Kind, v: &RxView, data: &[u8], src: Option<Addr>, sport: u16, local: Option<Addr>) -> Result<(), String> {
        match kind {
            Kind::Udp => {
                if v.data != data {
                    return Err("payload".into());
                }
                if src != Some(v.src) || sport != v.sport {
                    return Err(format!("source endpoint (got {}:{}, sent from {}:{})", src.map(|a| a.to_string()).unwrap_or_default(), sport, v.src, v.sport));
                }
                if local != Some(v.dst) {
                    return Err(format!("local_address (got {:?}, sent to {})", local.map(|a| a.to_string()), v.dst));
                }
                Ok(())
            }
            Kind::Icmp => {
                if iicmp::without_checksum(&v.data) != iicmp::without_checksum(data) {
                    return Err("message".into());
                }
                if src != Some(v.src) {
                    return Err(format!("source address (got {:?}, sent from {})", src.map(|a| a.to_string()), v.src));
                }
                let ok = if v.src.is_v4() { iicmp::parse4(data).map(|m| m.checksum_ok) } else { iicmp::parse6(&v.src, &v.dst, data).map(|m| m.checksum_ok) };
                if ok != Ok(true) {
                    return Err("checksum of the delivered message".into());
                }
                Ok(())
            }
            Kind::Raw { .. } | Kind::Sniffer { .. } => {
                let info = ip::parse(data, true).map_err(|e| format!("IP header ({})", e))?;
                if info.src != v.src || info.dst != v.dst {
                    return Err(format!("addresses (got {} -> {}, sent {} -> {})", info.src, info.dst, v.src, v.dst));
                }
                if info.proto != v.proto {
                    return Err("protocol".into());
                }
                if info.hop_limit != v.hop {
                    return Err(format!("hop limit (got {}, sent {})", info.hop_limit, v.hop));
                }
                if data[info.payload_off..] != v.data[..] {
                    return Err("payload".into());
                }
                if !info.v4_header_ok {
                    return Err("header checksum of the delivered packet".into());
                }
                Ok(())
            }
        }
    }

    fn step_recv(&mut self, si: usize) {
        let kind = self.socks[si].kind;
        let op = match kind {
            Kind::Icmp => *self.rng.pick(&[RxOp::Recv, RxOp::RecvSlice]),
            _ => *self.rng.pick(&[RxOp::Recv, RxOp::RecvSlice, RxOp::Peek, RxOp::PeekSlice, RxOp::Recv, RxOp::RecvSlice]),
        };
        let cap = self.socks[si].rx_bytes;
        // a small user buffer is only tried when the model knows the head of the queue
        let head_known = self.socks[si].rxq.front().map(|e| e.must).unwrap_or(true);
        let k = if matches!(op, RxOp::RecvSlice | RxOp::PeekSlice) {
            if head_known {
                match self.socks[si].rxq.front() {
                    Some(e) if self.rng.chance(1, 2) => {
                        let l = e.view.buf_len;
                        match self.rng.below(4) {
                            0 => l,
                            1 => l.saturating_sub(1),
                            2 => l + 1,
                            _ => self.rng.urange(0, l),
                        }
                    }
                    _ => self.rng.sizeish(cap),
                }
            } else {
                cap
            }
        } else {
            0
        };
        self.do_recv(si, op, k);
    }

    fn do_recv(&mut self, si: usize, op: RxOp, k: usize) {
        let kind = self.socks[si].kind;
        let res = self.call_recv(si, op, k);
        self.out.evals += 1;
        if matches!(op, RxOp::Peek | RxOp::PeekSlice) {
            self.stats.peeks += 1;
        }
        let opn = op.name();
        match res {
            RxRes::Exhausted => {
                self.stats.rx_exhausted += 1;
                self.log(format!("sock#{} {}.{} = Exhausted", si, kind.name(), opn));
                // everything the model holds must have been optional
                let lost: Vec<InRec> = self.socks[si].rxq.iter().filter(|e| e.must).cloned().collect();
                if let Some(e) = lost.first() {
                    let d = self.inbound[e.inb].desc.clone();
                    self.violate(
                        format!("ingress:{}:lost", kind.name()),
                        format!("sock#{} {} says Exhausted but inbound #{} ({}) arrived while the receive buffer was empty or had room and was never returned", si, opn, e.inb, d),
                    );
                }
                let n = self.socks[si].rxq.len() as u64;
                self.stats.rx_may_absent += n;
                self.socks[si].rxq.clear();
                self.out.class(format!("rx:{}:{}:exhausted", kind.name(), opn));
            }
            RxRes::Truncated => {
                self.stats.rx_truncated += 1;
                self.log(format!("sock#{} {}.{}(buf {}) = Truncated", si, kind.name(), opn, k));
                self.out.class(format!("rx:{}:{}:truncated", kind.name(), opn));
                let head = self.socks[si].rxq.front().cloned();
                match head {
                    Some(e) if e.must => {
                        if e.view.buf_len <= k {
                            let d = self.inbound[e.inb].desc.clone();
                            self.violate(
                                format!("ingress:{}:spurious-truncated", kind.name()),
                                format!("sock#{} {} with a {}-byte buffer says Truncated although the next datagram (inbound #{}: {}) has {} bytes", si, opn, k, e.inb, d, e.view.buf_len),
                            );
                        }
                        if op.consumes() {
                            // documented: the datagram is dropped
                            self.socks[si].rxq.pop_front();
                            self.note_delivery(si, e.inb);
                        }
                    }
                    Some(_) => {
                        // cannot happen with a correct stack: the generator only offers a full-size buffer here
                        if k >= self.socks[si].rx_bytes {
                            self.violate(
                                format!("ingress:{}:spurious-truncated", kind.name()),
                                format!("sock#{} {} with a buffer as large as the whole receive ring ({} bytes) says Truncated", si, opn, k),
                            );
                        }
                        self.socks[si].rxq.clear();
                    }
                    None => self.violate(
                        format!("ingress:{}:unknown-datagram", kind.name()),
                        format!("sock#{} {} says Truncated although nothing can be queued", si, opn),
                    ),
                }
            }
            RxRes::Ok { data, src, sport, local } => {
                self.log(format!(
                    "sock#{} {}.{}{} = Ok(len {}, from {}:{}, local {}) {}",
                    si,
                    kind.name(),
                    opn,
                    if matches!(op, RxOp::RecvSlice | RxOp::PeekSlice) { format!("(buf {})", k) } else { String::new() },
                    data.len(),
                    src.map(|a| a.to_string()).unwrap_or("-".into()),
                    sport,
                    local.map(|a| a.to_string()).unwrap_or("-".into()),
                    hex_cap(&data, 44)
                ));
                // find it: optional entries in front of it were never stored
                let mut found: Option<usize> = None;
                let mut why_not = String::new();
                let q: Vec<InRec> = self.socks[si].rxq.iter().cloned().collect();
                for (j, e) in q.iter().enumerate() {
                    match self.view_matches(kind, &e.view, &data, src, sport, local) {
                        Ok(()) => {
                            found = Some(j);
                            break;
                        }
                        Err(w) => {
                            if j == 0 {
                                why_not = w;
                            }
                            if e.must {
                                break;
                            }
                        }
                    }
                }
                match found {
                    Some(j) => {
                        let e = q[j].clone();
                        for _ in 0..j {
                            self.socks[si].rxq.pop_front();
                            self.stats.rx_may_absent += 1;
                        }
                        if matches!(op, RxOp::RecvSlice | RxOp::PeekSlice) && e.view.buf_len > k {
                            // cannot be reached: data.len() <= k and equality with the model entry was shown
                        }
                        self.out.class(format!(
                            "rx:{}:{}:ok:{}:{}",
                            kind.name(),
                            opn,
                            size_class(e.view.buf_len, self.socks[si].rx_bytes),
                            if e.must { "must" } else { "may" }
                        ));
                        if op.consumes() {
                            self.socks[si].rxq.pop_front();
                            self.socks[si].consumed.push(e.view.clone());
                            self.note_delivery(si, e.inb);
                            self.stats.rx_delivered += 1;
                        } else if let Some(f) = self.socks[si].rxq.front_mut() {
                            f.must = true; // seen: it is there
                        }
                    }
                    None => {
                        // diagnose
                        let dup = self.socks[si].consumed.iter().any(|v| self.view_matches(kind, v, &data, src, sport, local).is_ok());
                        let head = q.first().cloned();
                        let (what, detail) = if dup {
                            ("duplicated".to_string(), "it equals a datagram that was already received from this socket".to_string())
                        } else if let Some(h) = &head {
                            let hd = &h.view.data;
                            let payload_of = |d: &[u8]| -> Vec<u8> {
                                match kind {
                                    Kind::Raw { .. } | Kind::Sniffer { .. } => ip::parse(d, false).map(|i| d[i.payload_off..].to_vec()).unwrap_or_else(|_| d.to_vec()),
                                    _ => d.to_vec(),
                                }
                            };
                            let got = payload_of(&data);
                            if !got.is_empty() && got.len() < hd.len() && hd[..got.len()] == got[..] {
                                ("shortened".to_string(), format!("it is a {}-byte prefix of inbound #{} ({} bytes)", got.len(), h.inb, hd.len()))
                            } else if !hd.is_empty() && got.len() > hd.len() && got[..hd.len()] == hd[..] {
                                ("merged-or-extended".to_string(), format!("it starts with inbound #{} ({} bytes) and continues for {} more bytes", h.inb, hd.len(), got.len() - hd.len()))
                            } else if q.iter().skip(1).any(|e| self.view_matches(kind, &e.view, &data, src, sport, local).is_ok()) {
                                ("lost-or-reordered".to_string(), format!("it equals a later arrival, but inbound #{} ({}) arrived earlier into a buffer with room and was skipped", h.inb, self.inbound[h.inb].desc))
                            } else {
                                (format!("wrong-{}", why_not.split(' ').next().unwrap_or("content")), format!("it differs from the next expected datagram (inbound #{}: {}) in: {}", h.inb, self.inbound[h.inb].desc, why_not))
                            }
                        } else {
                            ("unknown-datagram".to_string(), "nothing can be queued for this socket".to_string())
                        };
                        self.violate(
                            format!("ingress:{}:{}", kind.name(), what),
                            format!(
                                "sock#{} {} returned {} bytes {} from {}:{} local {}: {}",
                                si,
                                opn,
                                data.len(),
                                hex_cap(&data, 48),
                                src.map(|a| a.to_string()).unwrap_or("-".into()),
                                sport,
                                local.map(|a| a.to_string()).unwrap_or("-".into()),
                                detail
                            ),
                        );
                        // resynchronise
                        self.socks[si].rxq.clear();
                    }
                }
            }
        }
    }

    fn note_delivery(&mut self, si: usize, inb: usize) {
        if self.socks[si].kind == Kind::Udp {
            self.inbound[inb].delivered_udp += 1;
            if self.inbound[inb].delivered_udp > 1 {
                let d = self.inbound[inb].desc.clone();
                let c = self.inbound[inb].udp_candidates.clone();
                self.violate(
                    "ingress:udp:delivered-to-several-sockets".into(),
                    format!("inbound #{} ({}) was returned by more than one UDP socket (matching sockets {:?})", inb, d, c),
                );
            }
        }
    }

    // ------------------------------------------------------------ polls and egress

    fn do_poll(&mut self) {
        for f in self.net.due(self.now) {
            self.host.dev.rx.push_back(f);
        }
        let blocked = self.host.dev.blocked;
        if !blocked {
            self.arm_inbound();
        }
        self.stats.polls += 1;
        if blocked {
            self.stats.polls_blocked += 1;
        }
        let mut rounds = 0;
        loop {
            let out = self.host.poll(self.now);
            if self.host.dev.tx_cap_hit {
                self.stats.polls_capped += 1;
                self.host.dev.tx_cap_hit = false;
            }
            let nframes = out.tx.len();
            let rxn = out.rx_count;
            for t in out.tx {
                self.on_tx(&t.data);
            }
            if self.verbose {
                println!("[{:>10}us] poll{}: rx {} frames, tx {} frames", self.now, if blocked { " (device blocked)" } else { "" }, rxn, nframes);
                let pa = self.host.iface.poll_at(crate::sim::inst(self.now), &self.host.sockets);
                let qs: Vec<String> = self.socks.iter().map(|s| match s.kind {
                    Kind::Udp => format!("#{}:q{}", s.idx, self.host.sockets.get::<udp::Socket>(s.handle).send_queue()),
                    _ => format!("#{}", s.idx),
                }).collect();
                println!("             poll_at {:?} queues {}", pa.map(|i| i.total_micros()), qs.join(" "));
            }
            rounds += 1;
            if blocked || self.host.dev.rx.is_empty() || rounds > 200 {
                break;
            }
        }
        let ready = self.wire.ready(false);
        for d in ready {
            if self.out.violations.is_empty() {
                self.on_wire(d);
            }
        }
        self.take_wire_defects();
    }

    fn take_wire_defects(&mut self) {
        let defects = std::mem::take(&mut self.wire.defects);
        for d in defects {
            self.violate(format!("egress:{}", d.kind), format!("frame #{} on the wire: {} ; frame {}", d.idx, d.msg, d.frame_hex));
        }
    }

    fn on_tx(&mut self, frame: &[u8]) {
        let f = classify(&self.cfg, frame);
        match &f {
            Frame::Arp(..) | Frame::Nd(..) => {
                let answered = self.net.on_frame(self.now, &f, &mut *self.rng);
                if self.verbose {
                    println!("      tx neighbor request ({})", if answered { "will be answered" } else { "no answer" });
                }
            }
            Frame::Ip(eh, pkt) => {
                if self.verbose {
                    println!("      tx ip {}", hex_cap(pkt, 40));
                }
                self.wire.on_ip(eh.as_ref(), pkt);
            }
            Frame::Bad(kind, msg) => {
                let (k, m) = (kind.to_string(), msg.clone());
                self.violate(format!("egress:{}", k), format!("transmitted frame {}: {}", hex_cap(frame, 64), m));
            }
        }
    }

    /// sockets a wire datagram may come from; None = traffic generated by the stack itself
    fn attribute(&self, d: &WireDgram) -> Result<Option<Vec<usize>>, String> {
        let v6 = !d.info.src.is_v4();
        match d.info.proto {
            ip::PROTO_UDP => {
                let sport = if d.payload().len() >= 2 { crate::indep::be16(d.payload(), 0) } else { 0 };
                let c: Vec<usize> = self.socks.iter().filter(|s| s.kind == Kind::Udp && s.ports_used.contains(&sport)).map(|s| s.idx).collect();
                if c.is_empty() {
                    return Err(format!("UDP datagram from source port {} which no socket was ever bound to", sport));
                }
                Ok(Some(c))
            }
            ip::PROTO_ICMP | ip::PROTO_ICMPV6 => {
                let m = if v6 { iicmp::parse6(&d.info.src, &d.info.dst, d.payload()) } else { iicmp::parse4(d.payload()) };
                match m {
                    Ok(m) if m.is_echo() && m.seq & SEQ_INBOUND == 0 => {
                        let c: Vec<usize> = self.socks.iter().filter(|s| s.kind == Kind::Icmp && s.ident == m.ident).map(|s| s.idx).collect();
                        if c.is_empty() {
                            return Err(format!("ICMP echo with identifier {:#x} that no socket uses", m.ident));
                        }
                        Ok(Some(c))
                    }
                    // errors and automatic echo replies of the stack
                    _ => Ok(None),
                }
            }
            p => {
                let c: Vec<usize> = self.socks.iter().filter(|s| s.kind == Kind::Raw { v6 } && s.raw_proto == p).map(|s| s.idx).collect();
                if c.is_empty() {
                    return Err(format!("IP protocol {} which no raw socket uses", p));
                }
                Ok(Some(c))
            }
        }
    }

    fn try_match(&mut self, c: usize, d: &WireDgram) -> bool {
        let s = &mut self.socks[c];
        let mut i = s.head;
        while i < s.sends.len() {
            match s.sends[i].state {
                TxState::Matched | TxState::Cancelled | TxState::Dropped => {}
                TxState::Optional => {
                    if compare(&s.sends[i].exp, d).is_ok() {
                        break;
                    }
                }
                TxState::Pending => {
                    if s.sends[i].fits {
                        if compare(&s.sends[i].exp, d).is_ok() {
                            break;
                        }
                        return false;
                    }
                }
            }
            i += 1;
        }
        if i >= s.sends.len() {
            return false;
        }
        for j in s.head..i {
            match s.sends[j].state {
                TxState::Pending => {
                    s.sends[j].state = TxState::Dropped;
                    self.stats.egress_dropped_oversize += 1;
                }
                TxState::Optional => s.sends[j].state = TxState::Cancelled,
                _ => {}
            }
        }
        s.sends[i].state = TxState::Matched;
        s.head = i + 1;
        self.stats.egress_matched += 1;
        if d.fragmented() {
            self.stats.egress_fragmented += 1;
        }
        true
    }

    fn on_wire(&mut self, d: WireDgram) {
        self.out.evals += 1;
        let cands = match self.attribute(&d) {
            Ok(Some(c)) => c,
            Ok(None) => {
                self.stats.stack_generated += 1;
                return;
            }
            Err(m) => {
                self.violate("egress:unattributed".into(), format!("{} ; packet {}", m, hex_cap(&d.packet, 64)));
                return;
            }
        };
        for c in &cands {
            if self.try_match(*c, &d) {
                if self.verbose {
                    println!("      wire datagram (frames {}..{}, {} fragment(s)) = next send of sock#{}", d.first_idx, d.last_idx, d.pieces.len(), c);
                }
                return;
            }
        }
        // diagnose against the candidate that knows this content, else the first
        let mut who = cands[0];
        let mut found: Option<(usize, TxState)> = None;
        for c in &cands {
            if let Some((j, r)) = self.socks[*c].sends.iter().enumerate().find(|(_, r)| compare(&r.exp, &d).is_ok()) {
                who = *c;
                found = Some((j, r.state));
                break;
            }
        }
        let kind = self.socks[who].kind.name();
        let (what, detail) = match found {
            Some((j, TxState::Matched)) => ("duplicated".to_string(), format!("it equals send #{} of sock#{} which was already transmitted", self.socks[who].sends[j].n, who)),
            Some((j, TxState::Cancelled)) => ("sent-after-close".to_string(), format!("it equals send #{} of sock#{} which close() had discarded", self.socks[who].sends[j].n, who)),
            Some((j, TxState::Dropped)) => ("unexpected-resurrection".to_string(), format!("it equals send #{} of sock#{} which was skipped earlier", self.socks[who].sends[j].n, who)),
            Some((j, _)) => {
                let s = &self.socks[who];
                let skipped: Vec<u32> = s.sends[s.head..j].iter().filter(|r| r.state == TxState::Pending && r.fits).map(|r| r.n).collect();
                ("reordered".to_string(), format!("it equals send #{} of sock#{} but the earlier accepted sends {:?} have not been transmitted yet", s.sends[j].n, who, skipped))
            }
            None => {
                let s = &mut self.socks[who];
                let h = s.head.min(s.sends.len());
                match s.sends[h..].iter().position(|r| matches!(r.state, TxState::Pending | TxState::Optional) && r.fits) {
                    Some(p) => {
                        let r = &mut s.sends[h + p];
                        // resynchronise: this record is taken as the (damaged) transmission of that send
                        r.state = TxState::Matched;
                        let res = compare(&r.exp, &d);
                        let (n, dsc) = (r.n, r.exp.describe());
                        s.head = h + p + 1;
                        match res {
                            Err((f, m)) if f == "icmp-checksum" && d.fragmented() => ("icmp-checksum-of-fragmented-message".to_string(), format!("next queued send #{} of sock#{} is [{}]: {}", n, who, dsc, m)),
                            Err((f, m)) => (f, format!("next queued send #{} of sock#{} is [{}]: {}", n, who, dsc, m)),
                            Ok(()) => ("inconsistent".to_string(), String::new()),
                        }
                    }
                    None => ("never-sent".to_string(), format!("sock#{} has no queued datagram left", who)),
                }
            }
        };
        if let Some((j, TxState::Pending)) | Some((j, TxState::Optional)) = found {
            // resynchronise after a reordering: the skipped ones count as lost
            let s = &mut self.socks[who];
            for r in s.sends[s.head..j].iter_mut() {
                if matches!(r.state, TxState::Pending | TxState::Optional) {
                    r.state = TxState::Dropped;
                }
            }
            s.sends[j].state = TxState::Matched;
            s.head = j + 1;
        }
        self.violate(
            format!("egress:{}:{}", kind, what),
            format!(
                "wire datagram {} -> {} proto {} ({} bytes, {} fragment(s)) {} : {}",
                d.info.src,
                d.info.dst,
                d.info.proto,
                d.packet.len(),
                d.pieces.len(),
                hex_cap(&d.packet, 72),
                detail
            ),
        );
    }

    // ------------------------------------------------------------ end of the program

    fn quiesce(&mut self) {
        self.host.dev.blocked = false;
        self.host.dev.tx_cap = 40_000;
        self.net.delay = (0, 0);
        // pending neighbor answers arrive now
        for r in self.net.replies.iter_mut() {
            r.0 = self.now;
        }
        self.log("--- quiescence: device unblocked, neighbors answer at once".into());
        let never_before = self.net.never_requests;
        let mut idle = 0;
        let mut rounds = 0;
        // patience: at least 8 idle polls AND 6 s without any frame.  The discovery rate limiter is
        // interface-wide (1 s) and a socket whose request was refused by it waits another second
        // on its own; two such waits can interleave, so a couple of seconds of silence prove nothing.
        let mut last_progress = self.now;
        while (idle < 8 || self.now - last_progress < 6_000_000) && rounds < 400 && self.out.violations.is_empty() {
            rounds += 1;
            let before = (self.wire.idx, self.net.answered);
            self.do_poll();
            if (self.wire.idx, self.net.answered) != before || !self.net.replies.is_empty() {
                idle = 0;
                last_progress = self.now;
                // let answers and follow-up fragments through promptly
                self.now += self.rng.range(1, 20_000) as Micros;
            } else {
                idle += 1;
                self.now += self.rng.range(150_000, 1_400_000) as Micros;
            }
        }
        if rounds >= 400 {
            self.out.harness_errors.push("quiescence not reached in 400 polls".into());
        }
        if !self.out.violations.is_empty() {
            return;
        }
        // every fragment series must be complete now
        let partials: Vec<String> = self.wire.reasm.partials.iter().map(|p| p.describe()).collect();
        if !partials.is_empty() {
            self.violate(
                "egress:fragments-incomplete".into(),
                format!("at quiescence {} fragmented datagram(s) are still incomplete on the wire: {}", partials.len(), partials.join(" ; ")),
            );
        }
        for d in self.wire.ready(true) {
            self.on_wire(d);
        }
        self.take_wire_defects();
        // exactly once: nothing transmittable may be left
        for si in 0..self.socks.len() {
            if !self.out.violations.is_empty() {
                return;
            }
            let mut missing: Option<(u32, String, Micros, &'static str)> = None;
            let mut blocked_by: Option<u32> = None;
            {
                let s = &self.socks[si];
                for r in &s.sends[s.head.min(s.sends.len())..] {
                    if r.state != TxState::Pending {
                        continue;
                    }
                    if !r.resolvable {
                        blocked_by = Some(r.n);
                        break;
                    }
                    if !r.fits {
                        continue;
                    }
                    missing = Some((r.n, r.exp.describe(), r.at, r.api));
                    break;
                }
            }
            if blocked_by.is_some() {
                self.stats.egress_blocked_unresolvable += 1;
            }
            if let Some((n, dsc, at, api)) = missing {
                let kind = self.socks[si].kind.name();
                if self.cfg.ethernet && self.net.never_requests > never_before {
                    // a distinct, documented failure mode: see FINDINGS.md
                    let blockers: Vec<String> = self
                        .socks
                        .iter()
                        .filter_map(|o| o.sends[o.head.min(o.sends.len())..].iter().find(|r| r.state == TxState::Pending).filter(|r| !r.resolvable).map(|r| format!("sock#{} send #{} to {}", o.idx, r.n, r.exp.dst)))
                        .collect();
                    self.violate(
                        "egress:starved-by-unresolvable-neighbor".into(),
                        format!(
                            "send #{} of sock#{} ({} at t={}us: {}) has a resolvable destination and nothing unresolvable before it in its own queue, but during {} polls of quiescence (device free, every resolvable neighbor answers at once) the interface only kept asking for the neighbor that never answers ({} requests) on behalf of [{}] and never asked for this one",
                            n, si, api, at, dsc, rounds, self.net.never_requests - never_before, blockers.join(", ")
                        ),
                    );
                    continue;
                }
                self.violate(
                    format!("egress:{}:never-transmitted", kind),
                    format!(
                        "send #{} of sock#{} ({} at t={}us: {}) was accepted, its destination is resolvable, nothing unresolvable is queued before it, the device is free - but it never appeared on the wire in {} polls of quiescence",
                        n, si, api, at, dsc, rounds
                    ),
                );
            }
        }
        // drain the receive side
        for si in 0..self.socks.len() {
            if !self.out.violations.is_empty() {
                return;
            }
            let mut guard = 0;
            loop {
                guard += 1;
                let (can, _) = self.rx_state(si);
                if (!can && self.socks[si].rxq.is_empty()) || guard > 64 {
                    break;
                }
                let cap = self.socks[si].rx_bytes;
                self.do_recv(si, RxOp::RecvSlice, cap);
            }
        }
        for i in 0..self.inbound.len() {
            if self.inbound[i].group_must && self.inbound[i].delivered_udp == 0 {
                let d = self.inbound[i].desc.clone();
                let c = self.inbound[i].udp_candidates.clone();
                self.violate(
                    "ingress:udp:lost".into(),
                    format!("inbound #{} ({}) matched the UDP sockets {:?}, each of which had room, but none of them returned it", i, d, c),
                );
            }
        }
    }
}

pub fn case(kinds: &'static str, idx: u64, rng: &mut Rng, ctx: &Ctx) -> CaseOut {
    let ethernet = rng.chance(2, 3);
    let ip_mtu = match rng.below(6) {
        0 => rng.urange(100, 200),
        1 => rng.urange(200, 576),
        2 => 576,
        3 => rng.urange(577, 1499),
        _ => 1500,
    };
    let cfg = NetCfg { ethernet, ip_mtu };
    let tag = rng.next_u64();
    let host = make_host(&cfg, rng.next_u64(), 0);
    let mut net = Net::new(cfg.clone());
    let res_mode = rng.below(3);
    net.delay = match res_mode {
        0 => (0, 0),
        1 => (1_000, 300_000),
        _ => (500_000, 4_000_000),
    };
    let mut wire = Wire::new(cfg.clone());
    wire.trace = ctx.verbose;
    let mut c = Case {
        out: CaseOut::default(),
        rng,
        verbose: ctx.verbose,
        tag,
        cfg: cfg.clone(),
        host,
        net,
        wire,
        now: 0,
        socks: Vec::new(),
        inbound: Vec::new(),
        inq: Vec::new(),
        next_ident: 0x1000,
        peers: peers(),
        use_never: false,
        history: Vec::new(),
        stats: Stats::default(),
    };
    c.use_never = c.rng.chance(1, 3);
    c.host.dev.prefill = c.rng.u8();
    // ---- sockets
    let nsock = c.rng.urange(1, 4);
    for i in 0..nsock {
        let kind = match kinds {
            "udp" => Kind::Udp,
            "icmp" => Kind::Icmp,
            "raw" => Kind::Raw { v6: c.rng.bool() },
            _ => match c.rng.below(8) {
                0..=2 => Kind::Udp,
                3..=4 => Kind::Icmp,
                5..=6 => Kind::Raw { v6: c.rng.bool() },
                _ => Kind::Sniffer { v6: c.rng.bool() },
            },
        };
        let ring = |r: &mut Rng| -> (usize, usize) {
            let slots = r.urange(1, 8);
            let bytes = match r.below(8) {
                0 => r.urange(1, 16),
                1 | 2 => r.urange(16, 128),
                3 | 4 => r.urange(128, 700),
                5 | 6 => r.urange(700, 2000),
                _ => r.urange(2000, 4096),
            };
            (slots, bytes)
        };
        let (tx_slots, tx_bytes) = ring(&mut *c.rng);
        let (rx_slots, rx_bytes) = ring(&mut *c.rng);
        let hop = if c.rng.bool() { 64 } else { c.rng.range(1, 255) as u8 };
        let raw_proto = match kind {
            Kind::Sniffer { .. } => ip::PROTO_UDP,
            _ => 200 + i as u8,
        };
        let handle = match kind {
            Kind::Udp => {
                let mut s = udp::Socket::new(
                    udp::PacketBuffer::new(vec![udp::PacketMetadata::EMPTY; rx_slots], vec![0u8; rx_bytes]),
                    udp::PacketBuffer::new(vec![udp::PacketMetadata::EMPTY; tx_slots], vec![0u8; tx_bytes]),
                );
                if hop != 64 {
                    s.set_hop_limit(Some(hop));
                }
                c.host.sockets.add(s)
            }
            Kind::Icmp => {
                let mut s = icmp::Socket::new(
                    icmp::PacketBuffer::new(vec![icmp::PacketMetadata::EMPTY; rx_slots], vec![0u8; rx_bytes]),
                    icmp::PacketBuffer::new(vec![icmp::PacketMetadata::EMPTY; tx_slots], vec![0u8; tx_bytes]),
                );
                if hop != 64 {
                    s.set_hop_limit(Some(hop));
                }
                let _ = s.bind(icmp::Endpoint::Ident(0x4000 + i as u16));
                c.host.sockets.add(s)
            }
            Kind::Raw { v6 } | Kind::Sniffer { v6 } => {
                let s = raw::Socket::new(
                    Some(if v6 { IpVersion::Ipv6 } else { IpVersion::Ipv4 }),
                    Some(IpProtocol::from(raw_proto)),
                    raw::PacketBuffer::new(vec![raw::PacketMetadata::EMPTY; rx_slots], vec![0u8; rx_bytes]),
                    raw::PacketBuffer::new(vec![raw::PacketMetadata::EMPTY; tx_slots], vec![0u8; tx_bytes]),
                );
                c.host.sockets.add(s)
            }
        };
        c.socks.push(Sock {
            idx: i,
            kind,
            handle,
            tx_slots,
            tx_bytes,
            rx_slots,
            rx_bytes,
            hop,
            bound: None,
            bind_gen: 0,
            ports_used: Vec::new(),
            ident: 0x4000 + i as u16,
            raw_proto,
            next_n: 0,
            sends: Vec::new(),
            head: 0,
            rxq: VecDeque::new(),
            consumed: Vec::new(),
        });
        c.out.class(format!("sock:{}:tx-slots{}:rx-slots{}", kind.name(), tx_slots.min(3), rx_slots.min(3)));
    }
    c.out.class(format!("net:{}:mtu{}:res{}:{}", if ethernet { "eth" } else { "ip" }, ip_mtu / 300, res_mode, if c.use_never { "never" } else { "all" }));
    // some neighbors are known in advance (they announced themselves)
    if ethernet {
        for p in 0..3 {
            if c.peers[p].on_link && c.rng.chance(1, 3) {
                let v6 = c.rng.bool();
                let f = c.net.announce(&c.peers[p], v6);
                c.host.dev.rx.push_back(f);
            }
        }
    }
    // most UDP sockets start bound
    for si in 0..c.socks.len() {
        if c.socks[si].kind == Kind::Udp && c.rng.chance(3, 4) {
            c.step_bind_close(si);
        }
    }
    // ---- the program
    let steps = c.rng.urange(15, if ctx.thorough() { 160 } else { 90 });
    for _ in 0..steps {
        let si = c.rng.usize_below(c.socks.len());
        match c.rng.below(100) {
            0..=31 => {
                if c.socks[si].kind == Kind::Udp && c.socks[si].bound.is_none() && c.rng.chance(5, 6) {
                    c.step_bind_close(si);
                } else {
                    c.step_send(si);
                }
            }
            32..=51 => {
                // reading an (in the model) empty queue is tried, but not all the time
                if c.socks[si].rxq.is_empty() && c.rng.chance(3, 4) {
                    c.step_inject();
                } else {
                    c.step_recv(si);
                }
            }
            52..=69 => c.step_inject(),
            70..=89 => {
                let dt = match c.rng.below(6) {
                    0 => 0,
                    1 => c.rng.range(1, 999),
                    2 => c.rng.range(1_000, 50_000),
                    3 => c.rng.range(50_000, 900_000),
                    4 => c.rng.range(900_000, 1_200_000),
                    _ => c.rng.range(1_200_000, 5_000_000),
                };
                c.now += dt as Micros;
                c.do_poll();
            }
            90..=92 => {
                c.host.dev.blocked = !c.host.dev.blocked;
                let b = c.host.dev.blocked;
                c.log(format!("device {}", if b { "BLOCKED (no tokens)" } else { "unblocked" }));
            }
            93..=95 => {
                let cap = *c.rng.pick(&[1usize, 1, 2, 3, 40_000]);
                c.host.dev.tx_cap = cap;
                c.log(format!("device hands out at most {} transmit tokens per poll", cap));
            }
            _ => c.step_bind_close(si),
        }
        // after a violation the model may be out of step with the stack: everything that
        // followed would be noise, so the case ends at its first violation
        if !c.out.violations.is_empty() {
            break;
        }
    }
    if c.out.violations.is_empty() {
        c.quiesce();
    }
    // ---- evidence
    let st = c.stats.clone();
    let mut out = std::mem::take(&mut c.out);
    out.count("cases", 1);
    out.count("sends_accepted", st.sends_accepted);
    out.count("sends_refused_full", st.sends_refused_full);
    out.count("sends_refused_unaddressable", st.sends_refused_unaddressable);
    out.count("egress_datagrams_matched", st.egress_matched);
    out.count("egress_fragmented_datagrams", st.egress_fragmented);
    out.count("egress_dropped_too_big", st.egress_dropped_oversize);
    out.count("egress_sockets_blocked_by_unresolvable", st.egress_blocked_unresolvable);
    out.count("inbound_injected", st.injected);
    out.count("inbound_invalid", st.injected_invalid);
    out.count("inbound_fragmented", st.injected_fragmented);
    out.count("rx_datagrams_delivered_and_compared", st.rx_delivered);
    out.count("rx_obligations", st.rx_must);
    out.count("rx_optional_absent", st.rx_may_absent);
    out.count("rx_truncated_errors", st.rx_truncated);
    out.count("rx_exhausted", st.rx_exhausted);
    out.count("peeks", st.peeks);
    out.count("closes", st.closes);
    out.count("binds", st.binds);
    out.count("polls", st.polls);
    out.count("polls_device_blocked", st.polls_blocked);
    out.count("polls_token_cap_hit", st.polls_capped);
    out.count("neighbor_requests", c.net.arp_requests + c.net.ns_requests);
    out.count("neighbor_requests_never_answered", c.net.never_requests);
    out.count("stack_generated_datagrams", st.stack_generated);
    out.count("wire_ip_frames", c.wire.ip_frames);
    out.count("wire_fragments", c.wire.fragments);
    if idx == 0 {
        out.sample = Some(
            Json::obj()
                .set("link", Json::s(format!("{:?}", cfg)))
                .set("stats", Json::s(format!("{:?}", st)))
                .set("history_head", Json::Arr(c.history.iter().take(30).map(|s| Json::s(s.clone())).collect())),
        );
    }
    out
}

pub fn case_udp(i: u64, r: &mut Rng, c: &Ctx) -> CaseOut {
    case("udp", i, r, c)
}
pub fn case_icmp(i: u64, r: &mut Rng, c: &Ctx) -> CaseOut {
    case("icmp", i, r, c)
}
pub fn case_raw(i: u64, r: &mut Rng, c: &Ctx) -> CaseOut {
    case("raw", i, r, c)
}
pub fn case_mixed(i: u64, r: &mut Rng, c: &Ctx) -> CaseOut {
    case("mixed", i, r, c)
}

pub fn monitor() -> super::Monitor {
    super::Monitor {
        id: "C09",
        rule: RULE,
        assumptions: &[
            "queue order has precedence over 'exactly once': a datagram queued behind one whose next hop never answers neighbor discovery is not required to appear (smoltcp retains the head datagram for retry)",
            "a datagram 'fits' if its IP length is <= the IP MTU, or (IPv4 only) <= FRAGMENTATION_BUFFER_SIZE; others must never appear on the wire",
            "order on the wire is judged by the FIRST fragment of each datagram (a later small datagram may overtake the tail fragments of an earlier large one)",
            "an inbound datagram is obligatory only if the accepting socket's buffer was empty, or 2*size <= capacity - recv_queue() and 2*queued+2 <= metadata slots (sufficient for any ring layout); several matching UDP sockets: exactly one of them, any one",
            "recv_slice with a too-small buffer consumes the datagram (documented); peek_slice does not",
            "IPv4 raw sockets also see packets that are not addressed to the host (documented filter = version+protocol): optional, never obligatory",
            "API preconditions respected by the generator: no mixed address families between source and destination, ICMP sockets send well-formed echo messages, raw sockets send well-formed IP packets of their own version/protocol",
            "at most one IPv4-fragmented datagram is in flight at any time (back-to-back fragmentation is C12's subject); inbound datagrams that provoke ICMP errors or echo replies are kept below the MTU for the same reason",
            "device checksum capabilities are the default (verify and generate everything)",
            "a case ends at its first violation (afterwards the model may be out of step with the stack)",
        ],
        floors: &[
            ("cases", 5_000),
            ("sends_accepted", 40_000),
            ("egress_datagrams_matched", 40_000),
            ("egress_fragmented_datagrams", 1_000),
            ("egress_dropped_too_big", 1_000),
            ("egress_sockets_blocked_by_unresolvable", 300),
            ("inbound_fragmented", 5_000),
            ("inbound_invalid", 5_000),
            ("rx_datagrams_delivered_and_compared", 30_000),
            ("rx_obligations", 15_000),
            ("rx_truncated_errors", 2_000),
            ("peeks", 5_000),
            ("closes", 2_000),
            ("polls_device_blocked", 20_000),
            ("polls_token_cap_hit", 5_000),
            ("errors_delivered_and_compared", 10_000),
            ("errors_not_for_the_socket", 10_000),
            ("distinct", 150),
        ],
        parts: vec![
            super::Part { name: "udp", cases: |c| c.n(40_000, 1_200_000), f: case_udp },
            super::Part { name: "icmp", cases: |c| c.n(25_000, 800_000), f: case_icmp },
            super::Part { name: "raw", cases: |c| c.n(25_000, 800_000), f: case_raw },
            super::Part { name: "mixed", cases: |c| c.n(40_000, 1_200_000), f: case_mixed },
            super::Part { name: "icmp-errors", cases: |c| c.n(20_000, 400_000), f: super::c09e::case },
        ],
        post: None,
    }
}
