//! C14 – ring and packet buffers are faithful bounded FIFO queues.
//!
//! Oracle: an executable model (VecDeque + "staged" map) compared with the
//! real `RingBuffer<u32>` / `PacketBuffer<u32>` after every operation.  Two
//! workloads: reachable-state closure over small capacities (every operation
//! with every argument from every reachable (read_at, length, staged) state)
//! and long random programs over larger capacities.
use crate::util::json::Json;
use crate::util::rng::Rng;
use crate::util::run::*;
use smoltcp::storage::{PacketBuffer, PacketMetadata, RingBuffer};
use std::collections::{BTreeMap, BTreeSet, VecDeque};

pub const RULE: &str = "model-vs-real comparison after every operation on RingBuffer<u32>/PacketBuffer<u32> with unique element ids; closure part: every op x every argument from every reachable (read_at,length,staged-set) state for small capacities; random part: programs of 10..400 ops on capacities up to 4096. A class is a distinct (structure, operation, outcome-shape[, wrap]) tuple.";

#[derive(Clone, Debug, PartialEq)]
pub enum ROp {
    EnqOneWith(bool),
    EnqOne,
    DeqOneWith(bool),
    DeqOne,
    EnqManyWith(u8), // 0: take none, 1: take one, 2: take half, 3: take all
    EnqMany(usize),
    EnqSlice(usize),
    DeqManyWith(u8),
    DeqMany(usize),
    DeqSlice(usize),
    GetUnalloc(usize, usize),
    WriteUnalloc(usize, usize),
    EnqUnalloc(usize), // clamped to window at execution
    GetAlloc(usize, usize),
    ReadAlloc(usize, usize),
    DeqAlloc(usize), // clamped to len
    Clear,
}

pub struct RingModel {
    cap: usize,
    q: VecDeque<Option<u32>>,
    staged: BTreeMap<usize, u32>,
    next_id: u32,
}

impl RingModel {
    fn new(cap: usize) -> Self {
        RingModel {
            cap,
            q: VecDeque::new(),
            staged: BTreeMap::new(),
            next_id: 1,
        }
    }
    fn id(&mut self) -> u32 {
        let i = self.next_id;
        self.next_id += 1;
        i
    }
    fn window(&self) -> usize {
        self.cap - self.q.len()
    }
    fn queue_enqueue_invalidate(&mut self) {
        self.staged.clear();
    }
}

fn take_amount(sel: u8, len: usize) -> usize {
    match sel {
        0 => 0,
        1 => 1.min(len),
        2 => len / 2,
        _ => len,
    }
}

fn opname(op: &ROp) -> &'static str {
    match op {
        ROp::EnqOneWith(_) => "enqueue_one_with",
        ROp::EnqOne => "enqueue_one",
        ROp::DeqOneWith(_) => "dequeue_one_with",
        ROp::DeqOne => "dequeue_one",
        ROp::EnqManyWith(_) => "enqueue_many_with",
        ROp::EnqMany(_) => "enqueue_many",
        ROp::EnqSlice(_) => "enqueue_slice",
        ROp::DeqManyWith(_) => "dequeue_many_with",
        ROp::DeqMany(_) => "dequeue_many",
        ROp::DeqSlice(_) => "dequeue_slice",
        ROp::GetUnalloc(..) => "get_unallocated",
        ROp::WriteUnalloc(..) => "write_unallocated",
        ROp::EnqUnalloc(_) => "enqueue_unallocated",
        ROp::GetAlloc(..) => "get_allocated",
        ROp::ReadAlloc(..) => "read_allocated",
        ROp::DeqAlloc(_) => "dequeue_allocated",
        ROp::Clear => "clear",
    }
}

fn cmp_front(m: &RingModel, off: usize, got: &[u32]) -> Result<(), String> {
    for (i, g) in got.iter().enumerate() {
        match m.q.get(off + i) {
            Some(Some(v)) if v != g => {
                return Err(format!(
                    "element at queue position {} is {} but the model holds {}",
                    off + i,
                    g,
                    v
                ))
            }
            Some(_) => {}
            None => return Err(format!("slice reaches past the queue end at position {}", off + i)),
        }
    }
    Ok(())
}

/// Apply one op to both; Err = mismatch description. Returns an outcome-shape label.
pub fn ring_step(r: &mut RingBuffer<'_, u32>, m: &mut RingModel, op: &ROp) -> Result<String, String> {
    let len0 = m.q.len();
    let win0 = m.window();
    let cw0 = r.contiguous_window();
    let mut shape = String::new();
    match op {
        ROp::EnqOneWith(accept) => {
            let id = m.id();
            let res = r.enqueue_one_with(|slot| {
                if *accept {
                    *slot = id;
                    Ok(())
                } else {
                    Err(())
                }
            });
            match res {
                Err(_) => {
                    if win0 != 0 {
                        return Err("Err(Full) although the model has free space".into());
                    }
                    shape.push_str("full");
                }
                Ok(Ok(())) => {
                    if win0 == 0 {
                        return Err("accepted an element although the model is full".into());
                    }
                    m.q.push_back(Some(id));
                    m.queue_enqueue_invalidate();
                    shape.push_str("ok");
                }
                Ok(Err(())) => {
                    if win0 == 0 {
                        return Err("callback invoked although the model is full".into());
                    }
                    // a declined enqueue changes nothing (staged data stays as it is,
                    // except that the callback had write access to that slot)
                    m.staged.remove(&0);
                    shape.push_str("declined");
                }
            }
        }
        ROp::EnqOne => {
            let id = m.id();
            match r.enqueue_one() {
                Err(_) => {
                    if win0 != 0 {
                        return Err("Err(Full) although the model has free space".into());
                    }
                    shape.push_str("full");
                }
                Ok(slot) => {
                    if win0 == 0 {
                        return Err("accepted an element although the model is full".into());
                    }
                    *slot = id;
                    m.q.push_back(Some(id));
                    m.queue_enqueue_invalidate();
                    shape.push_str("ok");
                }
            }
        }
        ROp::DeqOneWith(accept) => {
            let front = m.q.front().cloned();
            let mut seen = None;
            let res = r.dequeue_one_with(|slot| {
                seen = Some(*slot);
                if *accept { Ok(()) } else { Err(()) }
            });
            match res {
                Err(_) => {
                    if len0 != 0 {
                        return Err("Err(Empty) although the model holds elements".into());
                    }
                    shape.push_str("empty");
                }
                Ok(r2) => {
                    let Some(f) = front else {
                        return Err("dequeued from a queue the model says is empty".into());
                    };
                    if let (Some(f), Some(s)) = (f, seen) {
                        if f != s {
                            return Err(format!("front element is {} but the model holds {}", s, f));
                        }
                    }
                    if r2.is_ok() {
                        m.q.pop_front();
                        shape.push_str("ok");
                    } else {
                        shape.push_str("declined");
                    }
                }
            }
        }
        ROp::DeqOne => match r.dequeue_one() {
            Err(_) => {
                if len0 != 0 {
                    return Err("Err(Empty) although the model holds elements".into());
                }
                shape.push_str("empty");
            }
            Ok(slot) => {
                let Some(f) = m.q.pop_front() else {
                    return Err("dequeued from a queue the model says is empty".into());
                };
                if let Some(f) = f {
                    if f != *slot {
                        return Err(format!("front element is {} but the model holds {}", slot, f));
                    }
                }
                shape.push_str("ok");
            }
        },
        ROp::EnqManyWith(sel) => {
            let base = m.next_id;
            let mut offered = 0usize;
            let (n, ()) = r.enqueue_many_with(|buf| {
                offered = buf.len();
                let n = take_amount(*sel, buf.len());
                for (i, s) in buf[..n].iter_mut().enumerate() {
                    *s = base + i as u32;
                }
                (n, ())
            });
            m.next_id += n as u32;
            if offered > win0 {
                return Err(format!("offered {} free slots, model window is {}", offered, win0));
            }
            if win0 > 0 && offered == 0 {
                return Err("offered no slot although the model has free space".into());
            }
            if len0 == 0 && offered != m.cap {
                return Err(format!(
                    "empty ring offered {} contiguous slots, capacity is {}",
                    offered, m.cap
                ));
            }
            if len0 != 0 && offered != cw0 {
                return Err(format!(
                    "offered {} slots but contiguous_window() said {}",
                    offered, cw0
                ));
            }
            if n != take_amount(*sel, offered) {
                return Err("returned size differs from the callback's".into());
            }
            for i in 0..n {
                m.q.push_back(Some(base + i as u32));
            }
            // the callback had write access to the whole offered slice
            m.queue_enqueue_invalidate();
            shape.push_str(if n == 0 { "none" } else if n == offered { "all" } else { "part" });
        }
        ROp::EnqMany(size) => {
            let base = m.next_id;
            let s = r.enqueue_many(*size);
            let n = s.len();
            for (i, x) in s.iter_mut().enumerate() {
                *x = base + i as u32;
            }
            m.next_id += n as u32;
            if n > (*size).min(win0) {
                return Err(format!("returned {} slots for request {} with window {}", n, size, win0));
            }
            if (*size).min(win0) > 0 && n == 0 {
                return Err("returned no slot although space was available".into());
            }
            if len0 == 0 && n != (*size).min(m.cap) {
                return Err(format!(
                    "empty ring returned {} slots for request {} (capacity {})",
                    n, size, m.cap
                ));
            }
            if len0 != 0 && n != (*size).min(cw0) {
                return Err(format!(
                    "returned {} slots for request {} but contiguous_window() said {}",
                    n, size, cw0
                ));
            }
            for i in 0..n {
                m.q.push_back(Some(base + i as u32));
            }
            if n > 0 || len0 == 0 {
                m.queue_enqueue_invalidate();
            }
            shape.push_str(if n == *size { "all" } else { "short" });
        }
        ROp::EnqSlice(k) => {
            let base = m.next_id;
            let data: Vec<u32> = (0..*k as u32).map(|i| base + i).collect();
            m.next_id += *k as u32;
            let n = r.enqueue_slice(&data);
            if n != (*k).min(win0) {
                return Err(format!(
                    "enqueue_slice of {} into window {} accepted {}",
                    k, win0, n
                ));
            }
            for i in 0..n {
                m.q.push_back(Some(data[i]));
            }
            m.queue_enqueue_invalidate();
            shape.push_str(if n == *k { "all" } else { "short" });
        }
        ROp::DeqManyWith(sel) => {
            let mut seen: Vec<u32> = Vec::new();
            let (n, ()) = r.dequeue_many_with(|buf| {
                seen = buf.to_vec();
                (take_amount(*sel, buf.len()), ())
            });
            if seen.len() > len0 {
                return Err(format!("offered {} elements, model holds {}", seen.len(), len0));
            }
            if len0 > 0 && seen.is_empty() {
                return Err("offered nothing although the model holds elements".into());
            }
            cmp_front(m, 0, &seen)?;
            if n != take_amount(*sel, seen.len()) {
                return Err("returned size differs from the callback's".into());
            }
            for _ in 0..n {
                m.q.pop_front();
            }
            shape.push_str(if n == 0 { "none" } else if n == len0 { "drained" } else { "part" });
        }
        ROp::DeqMany(size) => {
            let got = r.dequeue_many(*size).to_vec();
            if got.len() > (*size).min(len0) {
                return Err(format!("returned {} elements for request {} with length {}", got.len(), size, len0));
            }
            if (*size).min(len0) > 0 && got.is_empty() {
                return Err("returned nothing although elements were available".into());
            }
            cmp_front(m, 0, &got)?;
            for _ in 0..got.len() {
                m.q.pop_front();
            }
            shape.push_str(if got.len() == (*size).min(len0) { "all" } else { "short" });
        }
        ROp::DeqSlice(k) => {
            let mut buf = vec![0u32; *k];
            let n = r.dequeue_slice(&mut buf);
            if n != (*k).min(len0) {
                return Err(format!("dequeue_slice into {} from length {} returned {}", k, len0, n));
            }
            cmp_front(m, 0, &buf[..n])?;
            for _ in 0..n {
                m.q.pop_front();
            }
            shape.push_str(if n == *k { "all" } else { "short" });
        }
        ROp::GetUnalloc(off, size) => {
            let base = m.next_id;
            let s = r.get_unallocated(*off, *size);
            let n = s.len();
            let want = if *off > win0 { 0 } else { (*size).min(win0 - *off) };
            if n > want {
                return Err(format!(
                    "get_unallocated({},{}) returned {} slots, at most {} are free there",
                    off, size, n, want
                ));
            }
            if want > 0 && n == 0 {
                return Err(format!("get_unallocated({},{}) returned nothing although {} slots are free there", off, size, want));
            }
            // read back what was staged there earlier
            for (i, x) in s.iter().enumerate() {
                if let Some(v) = m.staged.get(&(*off + i)) {
                    if v != x {
                        return Err(format!(
                            "staged element at offset {} reads {} but {} was written",
                            off + i,
                            x,
                            v
                        ));
                    }
                }
            }
            for (i, x) in s.iter_mut().enumerate() {
                *x = base + i as u32;
                m.staged.insert(*off + i, base + i as u32);
            }
            m.next_id += n as u32;
            shape.push_str(if n == want { "all" } else { "short" });
        }
        ROp::WriteUnalloc(off, k) => {
            let base = m.next_id;
            let data: Vec<u32> = (0..*k as u32).map(|i| base + i).collect();
            m.next_id += *k as u32;
            let n = r.write_unallocated(*off, &data);
            let want = if *off > win0 { 0 } else { (*k).min(win0 - *off) };
            if n != want {
                return Err(format!(
                    "write_unallocated({}, {} elements) with window {} wrote {}, expected {}",
                    off, k, win0, n, want
                ));
            }
            for i in 0..n {
                m.staged.insert(*off + i, data[i]);
            }
            shape.push_str(if n == *k { "all" } else { "short" });
        }
        ROp::EnqUnalloc(c) => {
            let c = (*c).min(win0);
            r.enqueue_unallocated(c);
            for i in 0..c {
                m.q.push_back(m.staged.get(&i).cloned());
            }
            let old = std::mem::take(&mut m.staged);
            for (o, v) in old {
                if o >= c {
                    m.staged.insert(o - c, v);
                }
            }
            shape.push_str(if c == 0 { "zero" } else { "some" });
        }
        ROp::GetAlloc(off, size) => {
            let s = r.get_allocated(*off, *size).to_vec();
            let want = if *off > len0 { 0 } else { (*size).min(len0 - *off) };
            if s.len() > want {
                return Err(format!("get_allocated({},{}) returned {} elements, only {} exist there", off, size, s.len(), want));
            }
            if want > 0 && s.is_empty() {
                return Err(format!("get_allocated({},{}) returned nothing although {} elements exist there", off, size, want));
            }
            cmp_front(m, *off, &s)?;
            shape.push_str(if s.len() == want { "all" } else { "short" });
        }
        ROp::ReadAlloc(off, k) => {
            let mut buf = vec![0u32; *k];
            let n = r.read_allocated(*off, &mut buf);
            let want = if *off > len0 { 0 } else { (*k).min(len0 - *off) };
            if n != want {
                return Err(format!("read_allocated({}, {}) with length {} read {}, expected {}", off, k, len0, n, want));
            }
            cmp_front(m, *off, &buf[..n])?;
            shape.push_str(if n == *k { "all" } else { "short" });
        }
        ROp::DeqAlloc(c) => {
            let c = (*c).min(len0);
            r.dequeue_allocated(c);
            for _ in 0..c {
                m.q.pop_front();
            }
            shape.push_str(if c == 0 { "zero" } else { "some" });
        }
        ROp::Clear => {
            r.clear();
            m.q.clear();
            m.staged.clear();
            shape.push_str("ok");
        }
    }
    // observers
    if r.len() != m.q.len() {
        return Err(format!("len() = {} but the model holds {}", r.len(), m.q.len()));
    }
    if r.capacity() != m.cap {
        return Err("capacity changed".into());
    }
    if r.len() > r.capacity() {
        return Err("length exceeds capacity".into());
    }
    if r.window() != m.window() {
        return Err(format!("window() = {} but the model says {}", r.window(), m.window()));
    }
    if r.is_empty() != m.q.is_empty() || r.is_full() != (m.window() == 0) {
        return Err("is_empty/is_full disagree with the model".into());
    }
    let cw = r.contiguous_window();
    if cw > m.window() || (m.window() > 0 && cw == 0) {
        return Err(format!("contiguous_window() = {} with window {}", cw, m.window()));
    }
    Ok(shape)
}

fn ring_ops_for(cap: usize) -> Vec<ROp> {
    let mut v = vec![
        ROp::EnqOneWith(true),
        ROp::EnqOneWith(false),
        ROp::EnqOne,
        ROp::DeqOneWith(true),
        ROp::DeqOneWith(false),
        ROp::DeqOne,
        ROp::Clear,
    ];
    for s in 0..4u8 {
        v.push(ROp::EnqManyWith(s));
        v.push(ROp::DeqManyWith(s));
    }
    for k in 0..=cap + 1 {
        v.push(ROp::EnqMany(k));
        v.push(ROp::EnqSlice(k));
        v.push(ROp::DeqMany(k));
        v.push(ROp::DeqSlice(k));
        v.push(ROp::EnqUnalloc(k));
        v.push(ROp::DeqAlloc(k));
        for o in 0..=cap + 1 {
            v.push(ROp::GetUnalloc(o, k));
            v.push(ROp::WriteUnalloc(o, k));
            v.push(ROp::GetAlloc(o, k));
            v.push(ROp::ReadAlloc(o, k));
        }
    }
    v
}

fn debug_numbers(s: &str) -> Vec<u64> {
    // pick the numbers following "read_at:" and "length:" in a Debug rendering
    let mut out = Vec::new();
    for key in ["read_at: ", "length: "] {
        let mut rest = s;
        while let Some(p) = rest.find(key) {
            rest = &rest[p + key.len()..];
            let n: String = rest.chars().take_while(|c| c.is_ascii_digit()).collect();
            if let Ok(x) = n.parse() {
                out.push(x);
            }
        }
    }
    out
}

fn with_ring<R>(cap: usize, borrowed: bool, f: impl FnOnce(&mut RingBuffer<'_, u32>) -> R) -> R {
    if borrowed {
        let mut store = vec![0xdead_0000u32; cap];
        let mut r = RingBuffer::new(&mut store[..]);
        f(&mut r)
    } else {
        let mut r = RingBuffer::new(vec![0xdead_0000u32; cap]);
        f(&mut r)
    }
}

fn ring_violation(cap: usize, borrowed: bool, path: &[ROp], op: &ROp, why: &str) -> Violation {
    Violation::new(
        format!("ring:{}", opname(op)),
        format!(
            "RingBuffer<u32> capacity {} ({}): after {:?}, {:?}: {}",
            cap,
            if borrowed { "borrowed" } else { "owned" },
            path,
            op,
            why
        ),
    )
    .with(
        Json::obj()
            .set("capacity", Json::u(cap as u64))
            .set("borrowed", Json::Bool(borrowed))
            .set("prefix", Json::s(format!("{:?}", path)))
            .set("op", Json::s(format!("{:?}", op)))
            .set("mismatch", Json::s(why)),
    )
}

/// Reachable-state closure for one capacity. case index selects (cap, storage kind).
pub fn ring_closure_case(idx: u64, _rng: &mut Rng, ctx: &Ctx) -> CaseOut {
    let mut out = CaseOut::default();
    let maxcap = if ctx.thorough() { 9 } else { 5 };
    let cap = (idx / 2) as usize % (maxcap + 1);
    let borrowed = idx % 2 == 1;
    let ops = ring_ops_for(cap);
    let mut seen: BTreeSet<(Vec<u64>, Vec<usize>)> = BTreeSet::new();
    let mut frontier: VecDeque<Vec<ROp>> = VecDeque::new();
    frontier.push_back(vec![]);
    seen.insert((vec![0, 0], vec![]));
    let mut states = 0u64;
    let mut transitions = 0u64;
    while let Some(path) = frontier.pop_front() {
        states += 1;
        for op in &ops {
            transitions += 1;
            let res = catch(|| {
                with_ring(cap, borrowed, |r| {
                    let mut m = RingModel::new(cap);
                    for p in &path {
                        ring_step(r, &mut m, p).map_err(|e| (true, e))?;
                    }
                    let shape = ring_step(r, &mut m, op).map_err(|e| (false, e))?;
                    let dbg = format!("{:?}", r);
                    let mut nums = debug_numbers(&dbg);
                    if nums.is_empty() {
                        // Debug format unknown: fall back to observables
                        nums = vec![
                            r.len() as u64,
                            r.contiguous_window() as u64,
                            r.get_allocated(0, cap).len() as u64,
                        ];
                    }
                    Ok::<_, (bool, String)>((shape, nums, m.staged.keys().cloned().collect::<Vec<_>>()))
                })
            });
            match res {
                Ok(Ok((shape, nums, staged))) => {
                    out.class(format!("ring/{}/{}", opname(op), shape));
                    if path.len() < 12 && seen.insert((nums, staged)) {
                        let mut p = path.clone();
                        p.push(op.clone());
                        frontier.push_back(p);
                    }
                }
                Ok(Err((in_prefix, e))) => {
                    if !in_prefix {
                        out.violate(ring_violation(cap, borrowed, &path, op, &e));
                    }
                }
                Err(p) => {
                    out.violate(ring_violation(
                        cap,
                        borrowed,
                        &path,
                        op,
                        &format!("panicked at {}:{}: {}", p.file, p.line, p.msg),
                    ));
                }
            }
        }
        if states > 200_000 {
            out.harness_errors.push("ring closure state cap hit".into());
            break;
        }
    }
    out.evals = transitions;
    out.count("ring_closure_states", states);
    out.count("ring_closure_transitions", transitions);
    if idx == 4 {
        out.sample = Some(
            Json::obj()
                .set("kind", Json::s("ring closure"))
                .set("capacity", Json::u(cap as u64))
                .set("states", Json::u(states))
                .set("transitions", Json::u(transitions)),
        );
    }
    out
}

fn random_rop(rng: &mut Rng, cap: usize) -> ROp {
    let k = rng.sizeish(cap + 2);
    let o = rng.sizeish(cap + 1);
    match rng.below(20) {
        0 => ROp::EnqOneWith(rng.chance(3, 4)),
        1 => ROp::EnqOne,
        2 => ROp::DeqOneWith(rng.chance(3, 4)),
        3 => ROp::DeqOne,
        4 => ROp::EnqManyWith(rng.below(4) as u8),
        5 => ROp::EnqMany(k),
        6 | 7 => ROp::EnqSlice(k),
        8 => ROp::DeqManyWith(rng.below(4) as u8),
        9 => ROp::DeqMany(k),
        10 | 11 => ROp::DeqSlice(k),
        12 => ROp::GetUnalloc(o, k),
        13 | 14 => ROp::WriteUnalloc(o, k),
        15 => ROp::EnqUnalloc(k),
        16 => ROp::GetAlloc(o, k),
        17 => ROp::ReadAlloc(o, k),
        18 => ROp::DeqAlloc(k),
        _ => {
            if rng.chance(1, 8) {
                ROp::Clear
            } else {
                ROp::DeqSlice(k)
            }
        }
    }
}

pub fn ring_random_case(idx: u64, rng: &mut Rng, _ctx: &Ctx) -> CaseOut {
    let mut out = CaseOut::default();
    let cap = match rng.below(6) {
        0 => rng.urange(0, 4),
        1 => rng.urange(5, 17),
        2 => 64,
        3 => rng.urange(18, 300),
        4 => 4096,
        _ => rng.urange(1, 1500),
    };
    let borrowed = rng.bool();
    let nops = rng.urange(10, 400);
    let mut trace: Vec<ROp> = Vec::new();
    let res = catch(|| {
        with_ring(cap, borrowed, |r| {
            let mut m = RingModel::new(cap);
            let mut classes = Vec::new();
            for _ in 0..nops {
                let op = random_rop(rng, cap);
                trace.push(op.clone());
                match ring_step(r, &mut m, &op) {
                    Ok(shape) => classes.push(format!("ring/{}/{}", opname(&op), shape)),
                    Err(e) => return Err((classes, e)),
                }
            }
            Ok(classes)
        })
    });
    out.evals = trace.len() as u64;
    match res {
        Ok(Ok(cl)) => {
            for c in cl {
                out.class(c);
            }
        }
        Ok(Err((cl, e))) => {
            for c in cl {
                out.class(c);
            }
            let (path, op) = trace.split_at(trace.len() - 1);
            out.violate(ring_violation(cap, borrowed, path, &op[0], &e));
        }
        Err(p) => {
            let (path, op) = trace.split_at(trace.len().saturating_sub(1));
            let dummy = ROp::Clear;
            out.violate(ring_violation(
                cap,
                borrowed,
                path,
                op.first().unwrap_or(&dummy),
                &format!("panicked at {}:{}: {}", p.file, p.line, p.msg),
            ));
        }
    }
    out.count("ring_random_ops", trace.len() as u64);
    if idx == 0 {
        out.sample = Some(
            Json::obj()
                .set("kind", Json::s("ring random program"))
                .set("capacity", Json::u(cap as u64))
                .set("ops", Json::s(format!("{:?}", &trace[..trace.len().min(12)]))),
        );
    }
    out
}

// ---------------------------------------------------------------- packet buffer

#[derive(Clone, Debug, PartialEq)]
pub enum POp {
    Enq(usize),
    EnqInf(usize, u8), // max_size, used selector (0 none, 1 one, 2 half, 3 all)
    Deq,
    DeqWith(bool),
    Peek,
}

fn popname(op: &POp) -> &'static str {
    match op {
        POp::Enq(_) => "enqueue",
        POp::EnqInf(..) => "enqueue_with_infallible",
        POp::Deq => "dequeue",
        POp::DeqWith(_) => "dequeue_with",
        POp::Peek => "peek",
    }
}

pub struct PktModel {
    meta_cap: usize,
    pay_cap: usize,
    q: VecDeque<(u32, usize)>,
    next_id: u32,
}

fn pay_byte(id: u32, i: usize) -> u8 {
    (id as usize).wrapping_mul(31).wrapping_add(i.wrapping_mul(7)).wrapping_add(3) as u8
}

fn check_payload(id: u32, size: usize, got: &[u8]) -> Result<(), String> {
    if got.len() != size {
        return Err(format!("packet {} came back with {} bytes, {} were enqueued", id, got.len(), size));
    }
    for (i, b) in got.iter().enumerate() {
        if *b != pay_byte(id, i) {
            return Err(format!("packet {} byte {} altered", id, i));
        }
    }
    Ok(())
}

pub fn pkt_step(b: &mut PacketBuffer<'_, u32>, m: &mut PktModel, op: &POp) -> Result<String, String> {
    let shape;
    let was_empty = m.q.is_empty();
    match op {
        POp::Enq(size) => {
            let id = m.next_id;
            m.next_id += 1;
            match b.enqueue(*size, id) {
                Ok(buf) => {
                    if buf.len() != *size {
                        return Err(format!("enqueue({}) returned a payload slice of {} bytes", size, buf.len()));
                    }
                    for (i, x) in buf.iter_mut().enumerate() {
                        *x = pay_byte(id, i);
                    }
                    m.q.push_back((id, *size));
                    shape = "ok";
                }
                Err(_) => {
                    if was_empty && m.meta_cap >= 1 && *size <= m.pay_cap {
                        return Err(format!(
                            "empty packet buffer (payload capacity {}) refused enqueue({})",
                            m.pay_cap, size
                        ));
                    }
                    shape = "full";
                }
            }
        }
        POp::EnqInf(max, sel) => {
            let id = m.next_id;
            m.next_id += 1;
            let mut offered = usize::MAX;
            let used = take_amount(*sel, *max);
            let r = b.enqueue_with_infallible(*max, id, |buf| {
                offered = buf.len();
                let u = used.min(buf.len());
                for (i, x) in buf[..u].iter_mut().enumerate() {
                    *x = pay_byte(id, i);
                }
                u
            });
            match r {
                Ok(n) => {
                    if offered != *max {
                        return Err(format!("callback was offered {} bytes, max_size was {}", offered, max));
                    }
                    if n != used {
                        return Err("returned size differs from the callback's".into());
                    }
                    m.q.push_back((id, n));
                    shape = "ok";
                }
                Err(_) => {
                    if offered != usize::MAX {
                        return Err("callback ran although the enqueue was refused".into());
                    }
                    if was_empty && m.meta_cap >= 1 && *max <= m.pay_cap {
                        return Err(format!(
                            "empty packet buffer (payload capacity {}) refused enqueue_with_infallible({})",
                            m.pay_cap, max
                        ));
                    }
                    shape = "full";
                }
            }
        }
        POp::Deq => match b.dequeue() {
            Ok((id, buf)) => {
                let Some((mid, msize)) = m.q.pop_front() else {
                    return Err("dequeued a packet from a buffer the model says is empty".into());
                };
                if id != mid {
                    return Err(format!("dequeued packet {} but the model's head is {}", id, mid));
                }
                check_payload(mid, msize, buf)?;
                shape = "ok";
            }
            Err(_) => {
                if !was_empty {
                    return Err("Err(Empty) although the model holds packets".into());
                }
                shape = "empty";
            }
        },
        POp::DeqWith(accept) => {
            let head = m.q.front().cloned();
            let mut seen: Option<(u32, Vec<u8>)> = None;
            let r = b.dequeue_with(|h, buf| {
                seen = Some((*h, buf.to_vec()));
                if *accept { Ok(()) } else { Err(()) }
            });
            match r {
                Err(_) => {
                    if !was_empty {
                        return Err("Err(Empty) although the model holds packets".into());
                    }
                    shape = "empty";
                }
                Ok(r2) => {
                    let Some((mid, msize)) = head else {
                        return Err("dequeue_with ran its callback on a buffer the model says is empty".into());
                    };
                    let (id, buf) = seen.unwrap();
                    if id != mid {
                        return Err(format!("callback saw packet {} but the model's head is {}", id, mid));
                    }
                    check_payload(mid, msize, &buf)?;
                    if r2.is_ok() {
                        m.q.pop_front();
                        shape = "ok";
                    } else {
                        shape = "declined";
                    }
                }
            }
        }
        POp::Peek => match b.peek() {
            Ok((id, buf)) => {
                let Some((mid, msize)) = m.q.front().cloned() else {
                    return Err("peek returned a packet from a buffer the model says is empty".into());
                };
                if *id != mid {
                    return Err(format!("peek saw packet {} but the model's head is {}", id, mid));
                }
                check_payload(mid, msize, buf)?;
                shape = "ok";
            }
            Err(_) => {
                if !was_empty {
                    return Err("peek: Err(Empty) although the model holds packets".into());
                }
                shape = "empty";
            }
        },
    }
    if b.is_empty() != m.q.is_empty() {
        return Err(format!("is_empty() = {} but the model holds {} packets", b.is_empty(), m.q.len()));
    }
    if m.q.len() > m.meta_cap {
        return Err("more packets queued than metadata slots".into());
    }
    let total: usize = m.q.iter().map(|e| e.1).sum();
    if total > m.pay_cap {
        return Err("more payload queued than payload capacity".into());
    }
    if b.payload_bytes_count() > b.payload_capacity() || b.payload_bytes_count() < total {
        return Err(format!(
            "payload_bytes_count() = {} with {} queued bytes, capacity {}",
            b.payload_bytes_count(),
            total,
            b.payload_capacity()
        ));
    }
    if b.packet_capacity() != m.meta_cap || b.payload_capacity() != m.pay_cap {
        return Err("capacity changed".into());
    }
    if b.is_full() && m.meta_cap > 0 && m.q.is_empty() && !b.is_empty() {
        return Err("inconsistent is_full".into());
    }
    Ok(format!("{}{}", shape, if was_empty { "/from-empty" } else { "" }))
}

fn with_pkt<R>(meta: usize, pay: usize, borrowed: bool, f: impl FnOnce(&mut PacketBuffer<'_, u32>) -> R) -> R {
    if borrowed {
        let mut ms = vec![PacketMetadata::EMPTY; meta];
        let mut ps = vec![0xa5u8; pay];
        let mut b = PacketBuffer::new(&mut ms[..], &mut ps[..]);
        f(&mut b)
    } else {
        let mut b = PacketBuffer::new(vec![PacketMetadata::EMPTY; meta], vec![0xa5u8; pay]);
        f(&mut b)
    }
}

fn pkt_violation(meta: usize, pay: usize, path: &[POp], op: &POp, why: &str) -> Violation {
    let kind = if why.contains("empty packet buffer") {
        "empty-refuses"
    } else if why.contains("panicked") {
        "panic"
    } else {
        "mismatch"
    };
    Violation::new(
        format!("packet:{}:{}", popname(op), kind),
        format!(
            "PacketBuffer<u32> with {} metadata slots / {} payload bytes: after {:?}, {:?}: {}",
            meta, pay, path, op, why
        ),
    )
    .with(
        Json::obj()
            .set("metadata_slots", Json::u(meta as u64))
            .set("payload_capacity", Json::u(pay as u64))
            .set("prefix", Json::s(format!("{:?}", path)))
            .set("op", Json::s(format!("{:?}", op)))
            .set("mismatch", Json::s(why)),
    )
}

pub fn pkt_closure_case(idx: u64, _rng: &mut Rng, ctx: &Ctx) -> CaseOut {
    let mut out = CaseOut::default();
    // idx enumerates (meta 0..=3|4, pay 0..=6|9, borrowed)
    let (mmax, pmax) = if ctx.thorough() { (4usize, 9usize) } else { (3usize, 6usize) };
    let borrowed = idx % 2 == 1;
    let k = (idx / 2) as usize;
    let meta = k % (mmax + 1);
    let pay = (k / (mmax + 1)) % (pmax + 1);
    let mut ops = vec![POp::Deq, POp::DeqWith(true), POp::DeqWith(false), POp::Peek];
    for s in 0..=pay + 1 {
        ops.push(POp::Enq(s));
        for sel in 0..4u8 {
            ops.push(POp::EnqInf(s, sel));
        }
    }
    let mut seen: BTreeSet<(Vec<u64>, Vec<usize>)> = BTreeSet::new();
    let mut frontier: VecDeque<Vec<POp>> = VecDeque::new();
    frontier.push_back(vec![]);
    let mut states = 0u64;
    let mut transitions = 0u64;
    let maxdepth = if ctx.thorough() { 10 } else { 8 };
    while let Some(path) = frontier.pop_front() {
        states += 1;
        for op in &ops {
            transitions += 1;
            let res = catch(|| {
                with_pkt(meta, pay, borrowed, |b| {
                    let mut m = PktModel { meta_cap: meta, pay_cap: pay, q: VecDeque::new(), next_id: 1 };
                    for p in &path {
                        pkt_step(b, &mut m, p).map_err(|e| (true, e))?;
                    }
                    let shape = pkt_step(b, &mut m, op).map_err(|e| (false, e))?;
                    let dbg = format!("{:?}", b);
                    let nums = debug_numbers(&dbg);
                    let sizes: Vec<usize> = m.q.iter().map(|e| e.1).collect();
                    Ok::<_, (bool, String)>((shape, nums, sizes))
                })
            });
            match res {
                Ok(Ok((shape, nums, sizes))) => {
                    out.class(format!("packet/{}/{}", popname(op), shape));
                    let known = !nums.is_empty();
                    if path.len() < maxdepth && (if known { seen.insert((nums, sizes)) } else { path.len() < 4 }) {
                        let mut p = path.clone();
                        p.push(op.clone());
                        frontier.push_back(p);
                    }
                }
                Ok(Err((in_prefix, e))) => {
                    if !in_prefix {
                        out.violate(pkt_violation(meta, pay, &path, op, &e));
                    }
                }
                Err(p) => out.violate(pkt_violation(
                    meta,
                    pay,
                    &path,
                    op,
                    &format!("panicked at {}:{}: {}", p.file, p.line, p.msg),
                )),
            }
        }
        if states > 100_000 {
            out.harness_errors.push("packet closure state cap hit".into());
            break;
        }
    }
    out.evals = transitions;
    out.count("packet_closure_states", states);
    out.count("packet_closure_transitions", transitions);
    if idx == 40 {
        out.sample = Some(
            Json::obj()
                .set("kind", Json::s("packet-buffer closure"))
                .set("metadata_slots", Json::u(meta as u64))
                .set("payload_capacity", Json::u(pay as u64))
                .set("states", Json::u(states))
                .set("transitions", Json::u(transitions)),
        );
    }
    out
}

pub fn pkt_random_case(idx: u64, rng: &mut Rng, _ctx: &Ctx) -> CaseOut {
    let mut out = CaseOut::default();
    let meta = *rng.pick(&[1usize, 1, 2, 3, 4, 8, 16]);
    let pay = match rng.below(5) {
        0 => rng.urange(0, 8),
        1 => rng.urange(9, 64),
        2 => 4096,
        _ => rng.urange(16, 1024),
    };
    let borrowed = rng.bool();
    let nops = rng.urange(10, 400);
    let mut trace: Vec<POp> = Vec::new();
    let res = catch(|| {
        with_pkt(meta, pay, borrowed, |b| {
            let mut m = PktModel { meta_cap: meta, pay_cap: pay, q: VecDeque::new(), next_id: 1 };
            let mut classes = Vec::new();
            for _ in 0..nops {
                let size = match rng.below(4) {
                    0 => rng.sizeish(pay + 1),
                    1 => rng.urange(0, pay / 2 + 1),
                    _ => rng.urange(0, pay / 4 + 1),
                };
                let op = match rng.below(10) {
                    0..=2 => POp::Enq(size),
                    3 | 4 => POp::EnqInf(size, rng.below(4) as u8),
                    5 | 6 => POp::Deq,
                    7 => POp::DeqWith(rng.chance(3, 4)),
                    8 => POp::DeqWith(true),
                    _ => POp::Peek,
                };
                trace.push(op.clone());
                match pkt_step(b, &mut m, &op) {
                    Ok(shape) => classes.push(format!("packet/{}/{}", popname(&op), shape)),
                    Err(e) => return Err((classes, e)),
                }
            }
            Ok(classes)
        })
    });
    out.evals = trace.len() as u64;
    out.count("packet_random_ops", trace.len() as u64);
    match res {
        Ok(Ok(cl)) => cl.into_iter().for_each(|c| out.class(c)),
        Ok(Err((cl, e))) => {
            cl.into_iter().for_each(|c| out.class(c));
            let (path, op) = trace.split_at(trace.len() - 1);
            out.violate(pkt_violation(meta, pay, path, &op[0], &e));
        }
        Err(p) => {
            let (path, op) = trace.split_at(trace.len().saturating_sub(1));
            let dummy = POp::Peek;
            out.violate(pkt_violation(
                meta,
                pay,
                path,
                op.first().unwrap_or(&dummy),
                &format!("panicked at {}:{}: {}", p.file, p.line, p.msg),
            ));
        }
    }
    if idx == 0 {
        out.sample = Some(
            Json::obj()
                .set("kind", Json::s("packet-buffer random program"))
                .set("metadata_slots", Json::u(meta as u64))
                .set("payload_capacity", Json::u(pay as u64))
                .set("ops", Json::s(format!("{:?}", &trace[..trace.len().min(12)]))),
        );
    }
    out
}

pub fn monitor() -> super::Monitor {
    super::Monitor {
        id: "C14",
        rule: RULE,
        assumptions: &[
            "elements staged through get/write_unallocated stay valid across dequeues and enqueue_unallocated, and are invalidated by queue-interface enqueues and clear()",
            "a refused PacketBuffer enqueue is only judged on an empty buffer (the statement promises nothing more)",
        ],
        floors: &[("evaluations", 50_000), ("distinct", 40)],
        parts: vec![
            super::Part { name: "ring-closure", cases: |c| if c.thorough() { 20 } else { 12 }, f: ring_closure_case },
            super::Part { name: "packet-closure", cases: |c| if c.thorough() { 100 } else { 56 }, f: pkt_closure_case },
            super::Part { name: "ring-random", cases: |c| c.n(20_000, 2_000_000), f: ring_random_case },
            super::Part { name: "packet-random", cases: |c| c.n(20_000, 2_000_000), f: pkt_random_case },
        ],
        post: None,
    }
}
