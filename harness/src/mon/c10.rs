//! C10 – every transmitted frame is well-formed, fits the MTU and has a legal source.
//!
//! Dedicated traffic scenarios (sim::scen) on all three media, MTUs from the protocol minimum
//! upward, every checksum-offload setting, garbage-prefilled transmit buffers; EVERY frame a
//! node's device receives from its interface is judged by the independent validator
//! (indep::x1::validate).  `judge` re-exports the entry point for other drivers.
use crate::sim::scen;
use crate::sim::traffic::Focus;
use crate::util::rng::Rng;
use crate::util::run::*;

pub use crate::sim::traffic::judge_frames as judge;

pub const RULE: &str = "every frame handed to the device in dedicated TCP / UDP / ICMP / raw / reply-to-hostile-input / DHCP / DNS / ARP / NDISC / MLD / IGMP / SLAAC scenarios (Ethernet, IP and IEEE 802.15.4 media; MTU from the protocol minimum (IPv4 68, IPv6 1280, 802.15.4 125) upward; every combination of transmit checksum offload; transmit buffers prefilled with garbage) is parsed by an independent codec written from the RFCs: link header, ARP, IPv4/IPv6 header lengths == frame size (no trailing bytes), header checksum, fragment offsets/sizes, extension headers, ICMPv4/ICMPv6/NDISC/MLD/IGMP bodies, UDP length + checksum, TCP data offset + options + checksum, DHCP, DNS, 802.15.4 + 6LoWPAN IPHC/NHC/FRAG; frame <= MTU; IP source = an address the interface owns at that instant (:: / 0.0.0.0 only for DHCP without lease, MLD reports without link-local address, DAD-style NS/RS), never broadcast/multicast; raw-socket packets exempt from the source rule only. IPv4 and 6LoWPAN fragments are reassembled and the datagram is judged again. In addition the 6LoWPAN flows of C20 (short and extended link addresses, all address classes, multicast) are replayed and their frames judged one by one (size, MAC header, IPHC/NHC/FRAG headers, fragment alignment and cover). A class is (scenario, medium, family, MTU class, offload class) or (medium, kind of frame) or an application action.";

pub fn tcp_case(i: u64, r: &mut Rng, c: &Ctx) -> CaseOut {
    scen::scen_tcp(i, r, c, Focus::Everything)
}
pub fn dgram_case(i: u64, r: &mut Rng, c: &Ctx) -> CaseOut {
    scen::scen_dgram(i, r, c, Focus::Everything)
}
pub fn replies_case(i: u64, r: &mut Rng, c: &Ctx) -> CaseOut {
    scen::scen_replies(i, r, c, Focus::Everything)
}
pub fn dhcp_case(i: u64, r: &mut Rng, c: &Ctx) -> CaseOut {
    scen::scen_dhcp(i, r, c, Focus::Everything)
}
pub fn dns_case(i: u64, r: &mut Rng, c: &Ctx) -> CaseOut {
    scen::scen_dns(i, r, c, Focus::Everything)
}
pub fn anyip_case(i: u64, r: &mut Rng, c: &Ctx) -> CaseOut {
    scen::scen_anyip(i, r, c, Focus::Everything)
}
pub fn mcast_case(i: u64, r: &mut Rng, c: &Ctx) -> CaseOut {
    scen::scen_mcast(i, r, c, Focus::Everything)
}

/// The 6LoWPAN flows of C20 (short and extended link addresses on either side, every address
/// class, multicast destinations, payloads up to the fragmentation buffer), kept here for what they
/// say about single frames: longer than 125 octets, an invalid MAC header, an undecodable
/// IPHC/NHC/FRAG header, an empty or misaligned fragment, fragments that do not cover the datagram
/// exactly once.  (What they say about losslessness is C20's business.)
pub fn lowpan_flows_case(i: u64, r: &mut Rng, c: &Ctx) -> CaseOut {
    let mut o = if i % 4 == 3 { crate::mon::c20::b2b_case(i, r, c) } else { crate::mon::c20::emit_case(i, r, c) };
    const KINDS: [&str; 8] = ["frame-too-long", "mac-header", "frag-empty", "frag-not-multiple-of-8", "frag-header", "frag-cover", "undecodable", "datagram-malformed"];
    let v = std::mem::take(&mut o.violations);
    for mut x in v {
        if !x.sig.contains(":wire:") {
            continue;
        }
        if let Some(k) = KINDS.iter().find(|k| x.sig.contains(*k)) {
            x.sig = format!("154-flow:{}", k);
            if !o.violations.iter().any(|y| y.sig == x.sig) {
                o.violations.push(x);
            }
        }
    }
    o.classes = o.classes.into_iter().map(|c| format!("154-flow|{}", c)).collect();
    o.count("lowpan_flow_cases", 1);
    o
}

pub fn monitor() -> super::Monitor {
    super::Monitor {
        id: "C10",
        rule: RULE,
        assumptions: &[
            "the interface addresses a frame is judged against are those at the end of the poll that emitted it (addresses change only between polls, or by SLAAC at the start of a poll)",
            "DHCP: the event of a poll is consumed before its frames are judged (a DHCP frame is emitted in the end-of-poll state) and applied to the interface afterwards exactly like examples/dhcp_client.rs; the scripted server never offers T1 = 0",
            "0.0.0.0 / :: as source is accepted for DHCP without lease, MLD reports without link-local address and NS/RS without source link-layer option (RFC 4861 DAD style); a zero UDP checksum over IPv4 is accepted as 'no checksum' (C08b is stricter)",
            "applications bind UDP sockets only to addresses the interface owns and never use AnyIP; raw-socket packets are recognised by comparing the emitted payload with what the application queued and are exempt from the source rule only",
            "datagrams to UDP port 53/5353 are judged as DNS only in scenarios whose only sender to these ports is the DNS socket; UDP 68->67 is judged as a DHCP client message",
            "IPv4 fragments from 0.0.0.0 are judged for the source rule when the datagram is reassembled (a fragment does not show that it is DHCP)",
            "RFC recommendations (SHOULD) are not judged: 576-byte limit of ICMPv4 errors, IGMP Router Alert, minimum DHCP message size option",
            "a library panic inside Interface::poll is reported under its own signature and ends the case",
        ],
        floors: &[
            ("frames_judged", 300_000),
            ("frames_eth", 100_000),
            ("frames_ip", 60_000),
            ("frames_154", 60_000),
            ("frames_at_minimum_mtu", 60_000),
            ("frames_exactly_filling_the_mtu", 30_000),
            ("frames_with_some_tx_checksum_off", 100_000),
            ("checksums_recomputed", 200_000),
            ("checksums_ipv4", 60_000),
            ("checksums_tcp", 60_000),
            ("checksums_udp", 15_000),
            ("checksums_icmpv4", 1000),
            ("checksums_icmpv6", 8000),
            ("checksums_igmp", 300),
            ("ipv4_fragments", 15_000),
            ("sixlowpan_fragments", 20_000),
            ("fragmented_datagrams_reassembled_and_judged", 10_000),
            ("frames_l3_arp", 5000),
            ("frames_l4_tcp", 150_000),
            ("frames_l4_udp", 25_000),
            ("frames_l4_icmpv4", 2000),
            ("frames_l4_icmpv6", 15_000),
            ("frames_from_raw_sockets", 800),
            ("frames_with_unspecified_ip_source", 5000),
            ("packets_injected", 40_000),
            ("reply_frames", 8000),
            ("dhcp_discovers_seen_by_server", 1500),
            ("dhcp_renew_or_rebind_requests_seen_by_server", 6000),
            ("dhcp_configured_events_applied", 2000),
            ("dhcp_deconfigured_events_applied", 1500),
            ("dns_query_datagrams_seen", 800),
            ("udp_datagrams_whose_computed_checksum_is_zero_sent_as_ffff", 60),
            ("lowpan_flow_cases", 5000),
            ("distinct", 300),
        ],
        parts: vec![
            super::Part { name: "tcp", cases: |c| c.n(4000, 60_000), f: tcp_case },
            super::Part { name: "dgram", cases: |c| c.n(6000, 120_000), f: dgram_case },
            super::Part { name: "replies", cases: |c| c.n(6000, 120_000), f: replies_case },
            super::Part { name: "dhcp", cases: |c| c.n(2000, 30_000), f: dhcp_case },
            super::Part { name: "dns", cases: |c| c.n(2000, 40_000), f: dns_case },
            super::Part { name: "mcast", cases: |c| c.n(3000, 60_000), f: mcast_case },
            super::Part { name: "anyip", cases: |c| c.n(3000, 60_000), f: anyip_case },
            super::Part { name: "lowpan-flows", cases: |c| c.n(8000, 80_000), f: lowpan_flows_case },
        ],
        post: None,
    }
}
