//! C03 – no received frame sequence can panic, hang or wedge the interface.
//!
//! Every case builds the socket zoo of `sim::zoo` on one medium, feeds it a
//! sequence of 1..64 stimuli of one generator (one monitor part per generator)
//! interleaved with time advances of 0..120 s, and then probes the interface
//! from an identity the fuzz traffic never used.
//!
//! Oracle: (a) every Interface::poll / poll_ingress_single / poll_egress runs
//! under `catch`: a panic located in the library is a violation whose signature
//! is PanicInfo::signature(); (b) more than 40 000 frames transmitted in one
//! poll, or one poll call lasting 15 s of wall time (helper-thread watchdog), is
//! `no-return:<medium>`; (c) an unanswered probe is `wedged:<medium>:<probe>`.
//! A failing history is minimised by replaying suffixes of it on a fresh zoo.
use crate::gen::frames::{self, Item, View};
use crate::gen::mutate;
use crate::indep;
use crate::sim::zoo::*;
use crate::sim::{Micros, TxRec};
use crate::util::json::Json;
use crate::util::rng::Rng;
use crate::util::run::*;

pub const RULE: &str = "per case: an interface on Ethernet / raw IP / IEEE 802.15.4 with TCP listening+connecting+established (scripted handshake), 2 UDP, 3 ICMP (ident, UDP port, TCP port), raw v4+v6, DNS with pending unicast and mDNS queries, DHCPv4 (Ethernet), multicast groups, IPv4 and 6LoWPAN reassembly; 1..64 stimuli of one generator (bytes | valid | mutants | replies | seeds; plus a configuration sweep and three directed scenarios) interleaved with time advances 0..120 s, delivered through Interface::poll or poll_ingress_single+poll_egress; every poll (and every poll_at in between) under catch_unwind + transmit cap 40000 + 15 s watchdog; afterwards ARP/NS and ICMP echo probes from a never-used identity must be answered. A class is medium | protocol of the stimulus | how the stack reacted (frame kind emitted, socket delta, silence).";

pub const ASSUMPTIONS: &[&str] = &[
    "SLAAC is enabled in one configuration in three (hostile router advertisements then reach iface/slaac.rs); the interface keeps its static addresses (SLAAC only adds and removes addresses it derived itself, the application does not apply DHCP leases), so 'one of its addresses' is well defined for the probe",
    "IFACE_MAX_ADDR_COUNT is 2 in this build: the interface owns two of {192.168.1.2/24, fe80::2/64, 2001:db8::2/64, EUI-64 link-local}",
    "802.15.4 devices are modelled with MTU 127 (classic PHY) and 2047 (802.15.4g SUN PHY); 'up to the device MTU' is read per device",
    "on 802.15.4 TCP/DNS use IPv6 only; multicast groups are joined in two thirds of the 802.15.4 cases (before the MLD-over-6LoWPAN fix joining one made the first poll panic)",
    "the application only performs always-legal socket calls (recv, send to the sender, close, listen/connect again, start_query, dhcp poll); a library panic inside such a call is reported as inconclusive harness error, not as a C03 violation",
    "the watchdog is the only use of wall time: 15 s for a single poll call",
    "Interface::poll_at is called between polls like every event loop does; a panic inside it is reported under its own 'poll_at:' signature (the statement names Interface::poll, but an interface whose poll_at panics cannot be driven any more)",
    "the application echoes UDP datagrams to their sender and TCP data to the peer; a panic in the poll that transmits such an echo is attributed to the received frame that chose the peer address",
    "TCP peers keep one persona per case in 2 cases of 5 (cooperative / zero-window receiver), otherwise every segment kind is drawn independently",
    "part 'directed' holds three scripted scenarios (peer ignoring the advertised window - a negative control, simultaneous open before our SYN left, FRAG1 with datagram_size below its headers) that reproduce random findings in one frame",
    "probe answers are accepted for 3 virtual seconds after the request (the statement sets no bound; replies are synchronous in this stack)",
    "frames are built with indep code and smoltcp emitters; the probe answers are judged with indep code only",
];

#[derive(Clone, Copy, PartialEq, Debug)]
pub enum Gen {
    Bytes,
    Valid,
    Mutants,
    Replies,
    Seeds,
    Config,
}

impl Gen {
    fn name(&self) -> &'static str {
        match self {
            Gen::Bytes => "bytes",
            Gen::Valid => "valid",
            Gen::Mutants => "mutants",
            Gen::Replies => "replies",
            Gen::Seeds => "seeds",
            Gen::Config => "config",
        }
    }
}

// ---------------------------------------------------------------- classification of what the stack emitted

fn classify_ip(p: &[u8]) -> &'static str {
    let Ok(info) = indep::ip::parse(p, false) else { return "ip-unparsed" };
    let end = (info.payload_off + info.payload_len).min(p.len());
    let pl = &p[info.payload_off.min(end)..end];
    if info.frag_offset != 0 || info.more_frags {
        return "ipv4-fragment";
    }
    match info.proto {
        1 => match pl.first() {
            Some(0) => "icmp4-echo-reply",
            Some(3) => "icmp4-unreachable",
            Some(8) => "icmp4-echo-request",
            _ => "icmp4-other",
        },
        2 => "igmp",
        6 => {
            if pl.len() < 14 {
                return "tcp-short";
            }
            let f = pl[13];
            if f & 0x04 != 0 {
                "tcp-rst"
            } else if f & 0x12 == 0x12 {
                "tcp-synack"
            } else if f & 0x02 != 0 {
                "tcp-syn"
            } else if f & 0x01 != 0 {
                "tcp-fin"
            } else if pl.len() > ((pl[12] >> 4) as usize) * 4 {
                "tcp-data"
            } else {
                "tcp-ack"
            }
        }
        17 => {
            if pl.len() < 4 {
                return "udp-short";
            }
            match (indep::be16(pl, 0), indep::be16(pl, 2)) {
                (68, 67) => "dhcp",
                (_, 53) => "dns-query",
                (_, 5353) => "mdns-query",
                _ => "udp",
            }
        }
        58 => match pl.first() {
            Some(129) => "icmp6-echo-reply",
            Some(1) => "icmp6-unreachable",
            Some(4) => "icmp6-param-problem",
            Some(135) => "ndisc-ns",
            Some(136) => "ndisc-na",
            Some(143) => "mld-report",
            _ => "icmp6-other",
        },
        _ => "ip-other",
    }
}

fn classify_tx(med: Med, tx: &[TxRec]) -> &'static str {
    let Some(t) = tx.first() else { return "silent" };
    let f = &t.data;
    match med {
        Med::Eth => {
            if f.len() < 14 {
                return "short-frame";
            }
            match indep::be16(f, 12) {
                0x0806 => {
                    if f.len() >= 22 && indep::be16(f, 20) == 2 {
                        "arp-reply"
                    } else {
                        "arp-request"
                    }
                }
                _ => classify_ip(&f[14..]),
            }
        }
        Med::Ip => classify_ip(f),
        Med::Lowpan => match catch(|| frames::lowpan_decode(f)) {
            Ok(Some(p)) => classify_ip(&p),
            _ => "6lowpan-fragment-or-nhc",
        },
    }
}

// ---------------------------------------------------------------- failures

#[derive(Clone, Debug)]
struct Failure {
    sig: String,
    what: String,
}

fn step_failure(med: Med, phase: &str, f: StepFail) -> Failure {
    match f {
        StepFail::Panic(p) => {
            if p.in_target() {
                Failure { sig: semantic_sig(&p), what: format!("Interface::poll panicked ({}) at {}:{}: {}", phase, p.file, p.line, p.msg) }
            } else {
                Failure { sig: "harness".into(), what: format!("harness panic inside the guarded poll at {}:{}: {}", p.file, p.line, p.msg) }
            }
        }
        StepFail::TxStorm(n) => Failure { sig: format!("no-return:{}:tx-cap", med.name()), what: format!("one poll call ({}) transmitted {} frames and was cut by the device cap: poll would not return", phase, n) },
    }
}

fn poll_at_failure(p: &PanicInfo) -> Failure {
    Failure { sig: format!("poll_at:{}", semantic_sig(p)), what: format!("Interface::poll_at (called between polls, as every event loop must) panicked at {}:{}: {}", p.file, p.line, p.msg) }
}

/// Replay `events` (fuzz phase only; the set-up is re-run) on a fresh zoo and report how it fails.
fn replay(cfg: &ZooCfg, events: &[Ev], log: &SharedLog, with_probe: bool) -> Option<Failure> {
    log.lock().unwrap().events.clear();
    let mut zoo = Zoo::build(cfg, log.clone(), false);
    if let Err(f) = zoo.open() {
        return Some(step_failure(cfg.med, "set-up", f));
    }
    for e in events {
        let mut e = e.clone();
        if e.at < zoo.now {
            e.at = zoo.now;
        }
        if let Err(f) = zoo.step(e) {
            return Some(step_failure(cfg.med, "fuzz", f));
        }
        let _ = zoo.poll_at();
    }
    if let (Some(p), false) = (&zoo.poll_at_panic, with_probe) {
        return Some(poll_at_failure(p));
    }
    if with_probe {
        if let Err((sig, what)) = zoo.probe() {
            return Some(Failure { sig, what });
        }
    }
    None
}

/// Shortest suffix (then greedy single removals) of `events` that still fails with the same signature.
fn minimise(cfg: &ZooCfg, events: &[Ev], log: &SharedLog, sig: &str, with_probe: bool) -> (Vec<Ev>, bool) {
    let same = |evs: &[Ev]| replay(cfg, evs, log, with_probe).map(|f| f.sig == sig).unwrap_or(false);
    let n = events.len();
    let mut best: Option<Vec<Ev>> = None;
    let mut k = 0usize;
    loop {
        let take = if k == 0 { 0 } else { (1usize << (k - 1)).min(n) };
        let cand = events[n - take..].to_vec();
        if same(&cand) {
            best = Some(cand);
            break;
        }
        if take >= n {
            break;
        }
        k += 1;
    }
    // nothing reproduces it in isolation: the failure depends on the application's random choices
    let Some(mut cur) = best else { return (events.to_vec(), false) };
    if cur.len() <= 12 {
        let mut i = 0;
        while i < cur.len() && cur.len() > 1 {
            let mut cand = cur.clone();
            cand.remove(i);
            if same(&cand) {
                cur = cand;
            } else {
                i += 1;
            }
        }
    }
    (cur, true)
}

fn report(out: &mut CaseOut, cfg: &ZooCfg, events: &[Ev], log: &SharedLog, fail: Failure, with_probe: bool, verbose: bool) {
    if fail.sig == "harness" {
        out.harness_errors.push(fail.what);
        return;
    }
    let (min, reproduced) = minimise(cfg, events, log, &fail.sig, with_probe);
    let desc = format!(
        "{}. Medium {}, device MTU {}, addresses {:?}, PAN {:?}. {} ({} of {} fuzz events; the scripted set-up precedes them): {}{}",
        fail.what,
        cfg.med.name(),
        cfg.mtu,
        cfg.addrs().iter().map(|c| c.to_string()).collect::<Vec<_>>(),
        cfg.pan,
        if reproduced { "Minimised failing sequence" } else { "Sequence (not reproduced in isolation, full history)" },
        min.len(),
        events.len(),
        render_events(cfg.t0, &min, 24),
        if with_probe { " then the probe" } else { "" }
    );
    if verbose {
        println!("FAILURE [{}] {}", fail.sig, desc);
    }
    let frames_hex: Vec<Json> = min.iter().flat_map(|e| e.frames.iter().map(|f| Json::hex(f))).take(32).collect();
    out.violate(Violation::new(fail.sig, desc).with(Json::obj().set("medium", Json::s(cfg.med.name())).set("config", Json::s(format!("{:?}", cfg))).set("frames", Json::Arr(frames_hex))));
}

// ---------------------------------------------------------------- one case

fn advance(rng: &mut Rng, zoo: &mut Zoo) -> Micros {
    let dt: Micros = match rng.below(12) {
        0..=4 => 0,
        5 | 6 => rng.range(1, 10_000) as Micros,
        7 => rng.range(10_000, 1_000_000) as Micros,
        8 => rng.range(1_000_000, 10_000_000) as Micros,
        9 => rng.range(10_000_000, 120_000_000) as Micros,
        10 => 120_000_000,
        _ => {
            // exactly the instant the stack asked for
            let now = zoo.now;
            match zoo.poll_at() {
                Some(t) if t > now && t - now <= 120_000_000 => t - now,
                _ => 0,
            }
        }
    };
    zoo.now + dt
}

fn next_item(gen: Gen, zoo: &Zoo, rng: &mut Rng, last_tx: &[Vec<u8>], seed_base: &Option<Vec<u8>>, persona: u8) -> (Item, String) {
    let v = View { cfg: &zoo.cfg, learned: &zoo.learned, persona };
    match gen {
        Gen::Bytes => {
            let it = frames::arbitrary(&v, rng);
            let l = it.proto.to_string();
            (it, l)
        }
        Gen::Valid | Gen::Config => {
            let it = frames::valid(&v, rng);
            let l = it.proto.to_string();
            (it, l)
        }
        Gen::Mutants => {
            let m = mutate::mutant(&v, rng);
            let l = format!("{}~{}{}", m.item.proto, m.how, if m.repaired { "+ck" } else { "" });
            (m.item, l)
        }
        Gen::Replies => {
            // answer one of the frames the stack has just sent; otherwise provoke it with valid traffic
            if !last_tx.is_empty() && rng.chance(4, 5) {
                let t = rng.pick(last_tx);
                if let Some(it) = frames::reply_to(&v, rng, t) {
                    // one reply in four is damaged after construction
                    if rng.chance(1, 4) {
                        if let Some(ip) = &it.ip {
                            let mut ip = ip.clone();
                            let (how, _) = mutate::mutate_ip(&v, rng, &mut ip);
                            if rng.bool() {
                                mutate::repair(&mut ip);
                            }
                            let l = format!("{}~{}", it.proto, how);
                            let it2 = frames::item(&v, rng, it.proto, it.peer, ip);
                            if !it2.frames.is_empty() {
                                return (it2, l);
                            }
                        }
                    }
                    let l = it.proto.to_string();
                    return (it, l);
                }
            }
            let it = frames::valid(&v, rng);
            let l = it.proto.to_string();
            (it, l)
        }
        Gen::Seeds => {
            if let Some(b) = seed_base {
                let mut ip = b.clone();
                let how = if rng.chance(1, 8) { "as-is" } else { mutate::mutate_ip(&v, rng, &mut ip).0 };
                if rng.bool() {
                    mutate::repair(&mut ip);
                }
                let it = frames::item(&v, rng, "upstream-seed", PEER_A, ip);
                if !it.frames.is_empty() {
                    return (it, format!("upstream-seed~{}", how));
                }
            }
            let m = mutate::mutant(&v, rng);
            let l = format!("{}~{}", m.item.proto, m.how);
            (m.item, l)
        }
    }
}

fn case_body(gen: Gen, idx: u64, cfg: ZooCfg, mut rng: Rng, verbose: bool, log: SharedLog) -> CaseOut {
    let mut out = CaseOut::default();
    let med = cfg.med;
    let g = gen.name();
    out.count("cases", 1);
    out.count(&format!("cases:{}", med.name()), 1);
    let mut zoo = Zoo::build(&cfg, log.clone(), verbose);
    out.evals += 1;
    if let Err(f) = zoo.open() {
        out.count("setup_failures", 1);
        let fail = step_failure(med, "set-up, no fuzz frame delivered yet", f);
        report(&mut out, &cfg, &[], &log, fail, false, verbose);
        return out;
    }
    if zoo.established_reached {
        out.count("cases_with_established_tcp", 1);
    }
    let conn_state = zoo.host.sockets.get::<smoltcp::socket::tcp::Socket>(zoo.h.tcp_conn).state();
    if conn_state == smoltcp::socket::tcp::State::SynSent {
        out.count("cases_with_connecting_tcp", 1);
    }
    // seed base for the "seeds" part: one upstream file per case
    let seed_base: Option<Vec<u8>> = if gen == Gen::Seeds {
        let seeds = mutate::fuzz_seeds();
        if seeds.is_empty() {
            None
        } else {
            let (_, f) = &seeds[(idx as usize / 3) % seeds.len()];
            let v = View { cfg: &zoo.cfg, learned: &zoo.learned, persona: 0 };
            mutate::retarget_eth(&v, f).filter(|ip| !(med == Med::Lowpan && ip[0] >> 4 == 4))
        }
    } else {
        None
    };
    if gen == Gen::Seeds && seed_base.is_some() {
        out.count("cases_from_upstream_seed", 1);
    }

    // TCP peers of the reply / valid generators keep one behaviour for the whole case in 2 cases of 5
    let persona: u8 = if matches!(gen, Gen::Replies | Gen::Valid) { *rng.pick(&[0u8, 0, 0, 1, 2]) } else { 0 };
    out.count(&format!("tcp_peer_persona:{}", ["erratic", "cooperative", "zero-window"][persona as usize]), 1);
    let target = if gen == Gen::Config { rng.urange(0, 3) } else { rng.urange(1, 64) };
    let mut events: Vec<Ev> = Vec::new();
    let mut injected = 0usize;
    // frames the stack emitted recently (for the reply generator); the set-up already produced some
    let mut last_tx: Vec<Vec<u8>> = Vec::new();
    let mut failure: Option<Failure> = None;
    let sample_wanted = idx == 0;
    let mut sample_rows: Vec<Json> = Vec::new();

    let do_step = |zoo: &mut Zoo, ev: Ev, out: &mut CaseOut, events: &mut Vec<Ev>, last_tx: &mut Vec<Vec<u8>>| -> Result<(&'static str, bool), Failure> {
        events.push(ev.clone());
        out.evals += 1;
        match zoo.step(ev) {
            Ok(o) => {
                let c = classify_tx(med, &o.tx);
                for t in &o.tx {
                    last_tx.push(t.data.clone());
                }
                let excess = last_tx.len().saturating_sub(8);
                last_tx.drain(..excess);
                Ok((c, o.sockets_changed))
            }
            Err(f) => Err(step_failure(med, "fuzz phase", f)),
        }
    };

    // an initial idle poll one second later makes timers fire and gives `replies` something to answer
    if gen == Gen::Replies || gen == Gen::Config {
        let at = zoo.now + 1_000_000;
        if let Err(f) = do_step(&mut zoo, Ev { at, frames: vec![], mode: PollMode::Poll, label: "idle".into() }, &mut out, &mut events, &mut last_tx) {
            failure = Some(f);
        }
    }

    while failure.is_none() && injected < target {
        let at = advance(&mut rng, &mut zoo);
        if at > zoo.now && rng.chance(1, 3) {
            // the clock moved: sometimes poll before the next frame arrives
            out.count("idle_polls", 1);
            match do_step(&mut zoo, Ev { at, frames: vec![], mode: PollMode::Poll, label: "idle".into() }, &mut out, &mut events, &mut last_tx) {
                Ok((c, _)) => {
                    if c != "silent" {
                        out.class(format!("{}|emitted-on-timer|{}", med.name(), c));
                    }
                }
                Err(f) => {
                    failure = Some(f);
                    break;
                }
            }
        }
        let (it, label) = next_item(gen, &zoo, &mut rng, &last_tx, &seed_base, persona);
        let mode = if rng.chance(1, 5) { PollMode::Single } else { PollMode::Poll };
        let batch = it.frames.len() > 1 && rng.chance(1, 3);
        let nfr = it.frames.len();
        injected += nfr.max(1);
        out.count(&format!("frames:{}", g), nfr as u64);
        out.count(&format!("frames:{}:{}", g, med.name()), nfr as u64);
        out.count("frames", nfr as u64);
        out.count(&format!("stimuli:{}", it.proto), 1);
        if it.train {
            out.count("fragment_trains", 1);
        }
        let mut reacted: &'static str = "silent";
        let mut changed = false;
        let at = at.max(zoo.now);
        let groups: Vec<Vec<Vec<u8>>> = if batch { vec![it.frames.clone()] } else { it.frames.iter().map(|f| vec![f.clone()]).collect() };
        let mut t = at;
        for gframes in groups {
            match do_step(&mut zoo, Ev { at: t, frames: gframes, mode, label: format!("{}:{}", g, label) }, &mut out, &mut events, &mut last_tx) {
                Ok((c, ch)) => {
                    if c != "silent" {
                        reacted = c;
                    }
                    changed |= ch;
                }
                Err(f) => {
                    failure = Some(f);
                    break;
                }
            }
            if it.train && rng.chance(1, 4) {
                t += rng.range(0, 2_000_000) as Micros;
            }
        }
        if failure.is_some() {
            break;
        }
        if reacted != "silent" {
            out.count("stimuli_answered_by_a_frame", 1);
        }
        if changed {
            out.count("stimuli_that_changed_a_socket", 1);
        }
        if reacted == "silent" && !changed {
            out.count("stimuli_dropped_silently", 1);
        }
        if it.train && (reacted != "silent" || changed) {
            out.count("fragment_trains_reassembled_and_processed", 1);
        }
        let coarse = match (reacted != "silent", changed) {
            (false, false) => "dropped",
            (true, false) => "answered",
            (false, true) => "socket",
            (true, true) => "answered+socket",
        };
        out.class(format!("{}|{}|{}", med.name(), it.proto, coarse));
        if reacted != "silent" {
            out.class(format!("{}|emitted|{}", med.name(), reacted));
        }
        if sample_wanted && sample_rows.len() < 12 {
            sample_rows.push(Json::obj().set("stimulus", Json::s(label.clone())).set("first_frame", Json::hex(it.frames.first().map(|f| &f[..f.len().min(96)]).unwrap_or(&[]))).set("reaction", Json::s(reacted)).set("socket_changed", Json::Bool(changed)));
        }
    }

    // ---- verdict
    if failure.is_none() {
        let _ = zoo.poll_at();
    }
    if let (None, Some(p)) = (&failure, &zoo.poll_at_panic) {
        out.count("cases_ended_by_panic_or_storm", 1);
        let f = poll_at_failure(p);
        report(&mut out, &cfg, &events, &log, f, false, verbose);
    } else if let Some(f) = failure {
        out.count("cases_ended_by_panic_or_storm", 1);
        report(&mut out, &cfg, &events, &log, f, false, verbose);
    } else {
        // let the dust settle for a moment of virtual time, then probe
        out.evals += 1;
        match zoo.probe() {
            Ok(n) => {
                out.count("probes_answered", n as u64);
                out.count(&format!("probes_answered:{}", med.name()), n as u64);
                out.count("cases_probed_ok", 1);
            }
            Err((sig, what)) => {
                out.count("cases_probe_failed", 1);
                report(&mut out, &cfg, &events, &log, Failure { sig, what }, true, verbose);
            }
        }
    }
    let st = &zoo.stats;
    out.count("polls", st.polls);
    out.count("frames_emitted_by_the_stack", st.frames_out);
    out.count("tcp_bytes_read_by_app", st.tcp_bytes_read);
    out.count("udp_datagrams_read_by_app", st.udp_datagrams_read);
    out.count("icmp_messages_read_by_app", st.icmp_read);
    out.count("raw_packets_read_by_app", st.raw_read);
    out.count("dns_queries_completed", st.dns_done);
    out.count("dns_queries_failed", st.dns_failed);
    out.count("dhcp_events", st.dhcp_events);
    out.count("tcp_relisten_or_reconnect", st.relisten + st.reconnect);
    out.count("tx_frames_not_decoded_by_harness", zoo.learned.undecoded);
    out.class(format!("cfg|{}", cfg.class()));
    out.count(&format!("cfg:mtu{}:{}", cfg.mtu, med.name()), 1);
    if sample_wanted {
        out.sample = Some(Json::obj().set("part", Json::s(g)).set("config", Json::s(format!("{:?}", cfg))).set("established", Json::Bool(zoo.established_reached)).set("stimuli", Json::Arr(sample_rows)));
    }
    out
}

/// Directed scenario (kept because it explains one random finding in four frames): a peer that
/// ignores the advertised receive window.  The application drains the socket between polls, so the
/// stack's *current* window is open again while the window it last *advertised* is exhausted.
fn directed_body(idx: u64, mut cfg: ZooCfg, verbose: bool, log: SharedLog) -> CaseOut {
    let mut out = CaseOut::default();
    out.count("cases", 1);
    out.count(&format!("cases:{}", cfg.med.name()), 1);
    out.count("directed_cases", 1);
    cfg.tcp_timestamps = false;
    let mut zoo = Zoo::build(&cfg, log.clone(), verbose);
    out.evals += 1;
    if let Err(f) = zoo.open() {
        let fail = step_failure(cfg.med, "set-up, no fuzz frame delivered yet", f);
        report(&mut out, &cfg, &[], &log, fail, false, verbose);
        return out;
    }
    let Some(f) = zoo.learned.flow(PORT_EST).cloned() else {
        // the SYN-ACK left in a form the harness does not decode (6LoWPAN fragments): nothing to direct
        out.count("directed_cases_skipped", 1);
        return out;
    };
    if zoo.established_reached {
        out.count("cases_with_established_tcp", 1);
    }
    let win = f.window as usize;
    let chunk = win.clamp(1, 1000);
    let rounds = 2 + (idx / 6) % 3;
    let mut events = Vec::new();
    let mut failure = None;
    let scenario = (idx / 3) % 3;
    let scenario_syn = scenario == 1;
    let mut evs: Vec<Ev> = Vec::new();
    if scenario == 2 && cfg.med == Med::Lowpan {
        // FRAG1 whose datagram_size (40..47) is smaller than the headers it carries: IPv6 (40) + UDP (8)
        let ours = cfg.v6()[0];
        let (src, dst) = (indep::Addr::V6(cfg.peer6_for(&PEER_A, ours).octets()), indep::Addr::V6(ours.octets()));
        // ports 0xf0b1 -> 0xf0b7 compress to 4 bits each: the NHC header is 4 bytes, no payload
        let mut seg = vec![0xf0, 0xb1, 0xf0, 0xb7, 0x00, 0x08, 0, 0];
        indep::cksum::transport_fill(&src, &dst, 17, &mut seg, 6);
        let pkt = indep::ip::build(&src, &dst, 17, 64, &seg);
        let mut o = frames::LpOpts::plain(&cfg);
        o.nhc_udp = true;
        o.force_frag = true;
        o.frag_size = Some(44 + ((idx / 9) % 4) as u16);
        evs.push(Ev { at: zoo.now + 1_000, frames: frames::link_wrap(&cfg, &PEER_A, &pkt, &o), mode: PollMode::Poll, label: "directed:frag1-datagram-size-below-headers".into() });
    } else if scenario_syn {
        // Simultaneous open while our own SYN could not leave yet: the connecting socket (SYN-SENT,
        // peer C:9000, neighbour unresolved so its SYN is still queued) receives a bare SYN from C.
        let c_flow_v4 = cfg.v4().is_some();
        let (src, dst) = if c_flow_v4 {
            (indep::Addr::V4(PEER_C.v4.octets()), indep::Addr::V4(OUR_V4.octets()))
        } else {
            let ours = cfg.v6()[0];
            (indep::Addr::V6(cfg.peer6_for(&PEER_C, ours).octets()), indep::Addr::V6(ours.octets()))
        };
        let seg = indep::tcp::Seg { sport: PORT_CONN_REMOTE, dport: PORT_CONN_LOCAL, seq: 0x0300_0000, flags: indep::tcp::SYN, wnd: 4096, mss: Some(1460), ..Default::default() };
        let pkt = indep::ip::build(&src, &dst, 6, 64, &indep::tcp::build(&src, &dst, &seg));
        evs.push(Ev { at: zoo.now + 1_000, frames: frames::link_wrap_plain(&cfg, &PEER_C, &pkt), mode: PollMode::Poll, label: "directed:simultaneous-open-before-our-syn-left".into() });
        evs.push(Ev { at: zoo.now + 2_000, frames: vec![], mode: PollMode::Poll, label: "idle".into() });
        evs.push(Ev { at: zoo.now + 1_500_000, frames: vec![], mode: PollMode::Poll, label: "idle".into() });
    } else {
        let mut seq = f.rcv_nxt;
        for k in 0..rounds {
            let seg = indep::tcp::Seg { sport: f.remote_port, dport: f.local_port, seq, ack: f.snd_nxt, flags: indep::tcp::ACK | indep::tcp::PSH, wnd: 4096, payload: vec![0x41 + k as u8; chunk], ..Default::default() };
            seq = seq.wrapping_add(chunk as u32);
            let pkt = indep::ip::build(&f.remote, &f.local, 6, 64, &indep::tcp::build(&f.remote, &f.local, &seg));
            // 1 ms apart: inside the delayed-ACK interval
            evs.push(Ev { at: zoo.now + 1_000 * (k as i64 + 1), frames: frames::link_wrap_plain(&cfg, &PEER_A, &pkt), mode: PollMode::Poll, label: format!("directed:tcp-data-ignoring-window#{}", k) });
        }
    }
    for ev in evs {
        events.push(ev.clone());
        out.evals += 1;
        out.count("frames", ev.frames.len() as u64);
        out.count("frames:directed", ev.frames.len() as u64);
        if let Err(e) = zoo.step(ev) {
            failure = Some(step_failure(cfg.med, "directed", e));
            break;
        }
        let _ = zoo.poll_at();
    }
    out.class(format!("{}|directed-{}|win{}", cfg.med.name(), ["window-overrun", "simultaneous-open", "frag1-small-size"][scenario as usize], win));
    if let (None, Some(p)) = (&failure, &zoo.poll_at_panic) {
        failure = Some(poll_at_failure(p));
    }
    match failure {
        Some(fl) => report(&mut out, &cfg, &events, &log, fl, false, verbose),
        None => match zoo.probe() {
            Ok(n) => out.count("probes_answered", n as u64),
            Err((sig, what)) => report(&mut out, &cfg, &events, &log, Failure { sig, what }, true, verbose),
        },
    }
    out
}

/// 15 s for one poll call; under the Miri interpreter (~10^4 x slower) the margin is kept by scaling the limit
fn watchdog_s(ctx: &Ctx) -> u64 {
    if ctx.variant.starts_with("miri") {
        3000
    } else {
        15
    }
}

fn directed_case(idx: u64, rng: &mut Rng, ctx: &Ctx) -> CaseOut {
    let med = Med::ALL[(idx % 3) as usize];
    let cfg = ZooCfg::random(med, rng);
    let verbose = ctx.verbose;
    guarded(med, watchdog_s(ctx), verbose, move |log| directed_body(idx, cfg, verbose, log))
}

fn run(gen: Gen, idx: u64, rng: &mut Rng, ctx: &Ctx) -> CaseOut {
    let med = Med::ALL[(idx % 3) as usize];
    let mut cfg = ZooCfg::random(med, rng);
    if gen == Gen::Config {
        // the configuration sweep: groups joined on every medium (including 802.15.4)
        cfg.join_groups = (idx / 3) % 2 == 0;
    }
    let r = rng.clone();
    let verbose = ctx.verbose;
    guarded(med, watchdog_s(ctx), verbose, move |log| case_body(gen, idx, cfg, r, verbose, log))
}

fn bytes_case(i: u64, r: &mut Rng, c: &Ctx) -> CaseOut {
    run(Gen::Bytes, i, r, c)
}
fn valid_case(i: u64, r: &mut Rng, c: &Ctx) -> CaseOut {
    run(Gen::Valid, i, r, c)
}
fn mutants_case(i: u64, r: &mut Rng, c: &Ctx) -> CaseOut {
    run(Gen::Mutants, i, r, c)
}
fn replies_case(i: u64, r: &mut Rng, c: &Ctx) -> CaseOut {
    run(Gen::Replies, i, r, c)
}
fn seeds_case(i: u64, r: &mut Rng, c: &Ctx) -> CaseOut {
    run(Gen::Seeds, i, r, c)
}
fn config_case(i: u64, r: &mut Rng, c: &Ctx) -> CaseOut {
    run(Gen::Config, i, r, c)
}

pub fn monitor() -> super::Monitor {
    super::Monitor {
        id: "C03",
        rule: RULE,
        assumptions: ASSUMPTIONS,
        floors: &[
            ("frames:bytes", 100_000),
            ("frames:valid", 200_000),
            ("frames:mutants", 250_000),
            ("frames:replies", 200_000),
            ("frames:seeds", 50_000),
            ("cases:ethernet", 10_000),
            ("cases:ip", 10_000),
            ("cases:ieee802154", 10_000),
            ("cfg:mtu2047:ieee802154", 1_000),
            ("cfg:mtu296:ip", 1_000),
            ("cases_with_established_tcp", 30_000),
            ("cases_with_connecting_tcp", 30_000),
            ("tcp_peer_persona:zero-window", 2_000),
            ("probes_answered:ethernet", 30_000),
            ("probes_answered:ip", 15_000),
            ("probes_answered:ieee802154", 15_000),
            ("stimuli_answered_by_a_frame", 300_000),
            ("stimuli_that_changed_a_socket", 100_000),
            ("fragment_trains_reassembled_and_processed", 20_000),
            ("tcp_bytes_read_by_app", 500_000),
            ("udp_datagrams_read_by_app", 5_000),
            ("dns_queries_completed", 1_000),
            ("dhcp_events", 5_000),
            ("distinct", 300),
        ],
        parts: vec![
            super::Part { name: "config", cases: |c| c.n(600, 6_000), f: config_case },
            super::Part { name: "directed", cases: |c| c.n(180, 1_800), f: directed_case },
            super::Part { name: "bytes", cases: |c| c.n(12_000, 180_000), f: bytes_case },
            super::Part { name: "valid", cases: |c| c.n(24_000, 360_000), f: valid_case },
            super::Part { name: "mutants", cases: |c| c.n(30_000, 450_000), f: mutants_case },
            super::Part { name: "replies", cases: |c| c.n(24_000, 360_000), f: replies_case },
            super::Part { name: "seeds", cases: |c| c.n(6_000, 90_000), f: seeds_case },
        ],
        post: None,
    }
}
