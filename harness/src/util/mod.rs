pub mod json;
pub mod rng;
pub mod run;
