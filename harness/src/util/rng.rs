//! Hand-written PRNG (xoshiro256**), seeded through splitmix64.
//! Every case derives its own stream from (VERIF_SEED, property, case index).

#[derive(Clone, Debug)]
pub struct Rng {
    s: [u64; 4],
}

pub fn splitmix64(x: &mut u64) -> u64 {
    *x = x.wrapping_add(0x9E3779B97F4A7C15);
    let mut z = *x;
    z = (z ^ (z >> 30)).wrapping_mul(0xBF58476D1CE4E5B9);
    z = (z ^ (z >> 27)).wrapping_mul(0x94D049BB133111EB);
    z ^ (z >> 31)
}

/// Stable 64-bit mix of several words (not cryptographic).
pub fn mix(words: &[u64]) -> u64 {
    let mut h = 0x243F6A8885A308D3u64;
    for &w in words {
        h ^= w;
        let mut t = h;
        h = splitmix64(&mut t);
    }
    h
}

pub fn hash_str(s: &str) -> u64 {
    let mut h = 0xcbf29ce484222325u64;
    for b in s.bytes() {
        h ^= b as u64;
        h = h.wrapping_mul(0x100000001b3);
    }
    h
}

impl Rng {
    pub fn new(seed: u64) -> Rng {
        let mut x = seed;
        let s = [
            splitmix64(&mut x),
            splitmix64(&mut x),
            splitmix64(&mut x),
            splitmix64(&mut x),
        ];
        Rng { s }
    }

    pub fn for_case(seed: u64, prop: &str, case: u64) -> Rng {
        Rng::new(mix(&[seed, hash_str(prop), case]))
    }

    pub fn next_u64(&mut self) -> u64 {
        let result = self.s[1].wrapping_mul(5).rotate_left(7).wrapping_mul(9);
        let t = self.s[1] << 17;
        self.s[2] ^= self.s[0];
        self.s[3] ^= self.s[1];
        self.s[1] ^= self.s[2];
        self.s[0] ^= self.s[3];
        self.s[2] ^= t;
        self.s[3] = self.s[3].rotate_left(45);
        result
    }

    pub fn u32(&mut self) -> u32 {
        (self.next_u64() >> 32) as u32
    }
    pub fn u16(&mut self) -> u16 {
        (self.next_u64() >> 48) as u16
    }
    pub fn u8(&mut self) -> u8 {
        (self.next_u64() >> 56) as u8
    }
    pub fn bool(&mut self) -> bool {
        self.next_u64() >> 63 == 1
    }
    /// uniform in [0, n) ; n == 0 returns 0
    pub fn below(&mut self, n: u64) -> u64 {
        if n == 0 {
            return 0;
        }
        // multiply-shift; bias negligible for our purposes
        ((self.next_u64() as u128 * n as u128) >> 64) as u64
    }
    pub fn usize_below(&mut self, n: usize) -> usize {
        self.below(n as u64) as usize
    }
    /// uniform in [lo, hi] inclusive
    pub fn range(&mut self, lo: u64, hi: u64) -> u64 {
        if hi <= lo {
            return lo;
        }
        lo + self.below(hi - lo + 1)
    }
    pub fn urange(&mut self, lo: usize, hi: usize) -> usize {
        self.range(lo as u64, hi as u64) as usize
    }
    /// true with probability num/den
    pub fn chance(&mut self, num: u64, den: u64) -> bool {
        self.below(den) < num
    }
    pub fn pick<'a, T>(&mut self, xs: &'a [T]) -> &'a T {
        &xs[self.usize_below(xs.len())]
    }
    pub fn fill(&mut self, buf: &mut [u8]) {
        for chunk in buf.chunks_mut(8) {
            let v = self.next_u64().to_le_bytes();
            chunk.copy_from_slice(&v[..chunk.len()]);
        }
    }
    pub fn bytes(&mut self, n: usize) -> Vec<u8> {
        let mut v = vec![0u8; n];
        self.fill(&mut v);
        v
    }
    /// A "size-like" value biased to small numbers and to boundaries of `max`.
    pub fn sizeish(&mut self, max: usize) -> usize {
        match self.below(10) {
            0 => 0,
            1 => max,
            2 => max.saturating_sub(1),
            3 => 1.min(max),
            4 | 5 => self.urange(0, max.min(8)),
            _ => self.urange(0, max),
        }
    }
    pub fn shuffle<T>(&mut self, xs: &mut [T]) {
        for i in (1..xs.len()).rev() {
            let j = self.usize_below(i + 1);
            xs.swap(i, j);
        }
    }
}

/// Content byte of stream `tag` at offset `i` (offset keyed, so any misplacement
/// shows with probability 255/256 per byte).
#[inline]
pub fn stream_byte(tag: u64, i: u64) -> u8 {
    let mut x = tag ^ i.wrapping_mul(0x9E3779B97F4A7C15);
    x ^= x >> 29;
    x = x.wrapping_mul(0xBF58476D1CE4E5B9);
    x ^= x >> 32;
    (x & 0xff) as u8
}
