//! Case runner: parallel execution of independent seeded cases, panic capture,
//! merging of per-case observations into the evidence/result files.
use super::json::Json;
use super::rng::Rng;
use std::cell::RefCell;
use std::collections::{BTreeMap, BTreeSet};
use std::panic::{self, AssertUnwindSafe};
use std::sync::atomic::{AtomicU64, Ordering};
use std::sync::Mutex;
use std::time::Instant;

#[derive(Clone, Debug)]
pub struct Violation {
    /// semantic signature (never contains seeds or line numbers)
    pub sig: String,
    pub desc: String,
    pub detail: Json,
}

impl Violation {
    pub fn new(sig: impl Into<String>, desc: impl Into<String>) -> Violation {
        Violation {
            sig: sig.into(),
            desc: desc.into(),
            detail: Json::Null,
        }
    }
    pub fn with(mut self, detail: Json) -> Violation {
        self.detail = detail;
        self
    }
}

#[derive(Default)]
pub struct CaseOut {
    /// oracle evaluations performed by this case
    pub evals: u64,
    /// behaviour classes observed (distinct keys are counted over the whole run)
    pub classes: Vec<String>,
    pub counters: Vec<(String, u64)>,
    pub sample: Option<Json>,
    pub violations: Vec<Violation>,
    /// harness-side problems (never a violation): makes the run inconclusive
    pub harness_errors: Vec<String>,
}

impl CaseOut {
    pub fn count(&mut self, k: &str, n: u64) {
        if let Some(e) = self.counters.iter_mut().find(|e| e.0 == k) {
            e.1 += n;
        } else {
            self.counters.push((k.to_string(), n));
        }
    }
    pub fn class(&mut self, k: impl Into<String>) {
        let k = k.into();
        if !self.classes.contains(&k) {
            self.classes.push(k);
        }
    }
    /// fold another case's observations into this one
    pub fn merge(&mut self, o: CaseOut) {
        self.evals += o.evals;
        for c in o.classes {
            self.class(c);
        }
        for (k, n) in o.counters {
            self.count(&k, n);
        }
        if self.sample.is_none() {
            self.sample = o.sample;
        }
        for v in o.violations {
            self.violate(v);
        }
        self.harness_errors.extend(o.harness_errors);
    }
    pub fn violate(&mut self, v: Violation) {
        // keep at most a handful per case
        if self.violations.len() < 8 && !self.violations.iter().any(|x| x.sig == v.sig) {
            self.violations.push(v);
        }
    }
}

#[derive(Clone, Debug)]
pub struct Ctx {
    pub prop: String,
    pub tier: String,
    pub seed: u64,
    pub variant: String,
    pub verbose: bool,
    pub threads: usize,
    pub out_dir: String,
    /// optional scale factor for the number of cases (VERIF_SCALE, percent)
    pub scale_pct: u64,
    /// run only the cases [first, first+count) of each selected part (sharded sanitizer runs)
    pub case_range: Option<(u64, u64)>,
    /// stop handing out new cases of a part after this many seconds of wall time (coverage only;
    /// never part of a verdict) - used by the slow sanitizer shards
    pub budget_s: Option<u64>,
}

impl Ctx {
    pub fn thorough(&self) -> bool {
        self.tier == "thorough"
    }
    pub fn n(&self, quick: u64, thorough: u64) -> u64 {
        let base = if self.thorough() { thorough } else { quick };
        (base * self.scale_pct / 100).max(1)
    }
}

// ---------------------------------------------------------------- panic capture

#[derive(Clone, Debug, Default)]
pub struct PanicInfo {
    pub file: String,
    pub line: u32,
    pub msg: String,
}

thread_local! {
    static LAST_PANIC: RefCell<Option<PanicInfo>> = const { RefCell::new(None) };
    static QUIET: RefCell<bool> = const { RefCell::new(true) };
}

pub fn install_panic_hook() {
    panic::set_hook(Box::new(|info| {
        let (file, line) = info
            .location()
            .map(|l| (l.file().to_string(), l.line()))
            .unwrap_or_default();
        let msg = if let Some(s) = info.payload().downcast_ref::<&str>() {
            s.to_string()
        } else if let Some(s) = info.payload().downcast_ref::<String>() {
            s.clone()
        } else {
            "<non-string panic>".to_string()
        };
        let quiet = QUIET.with(|q| *q.borrow());
        if !quiet {
            eprintln!("panic at {}:{}: {}", file, line, msg);
        }
        LAST_PANIC.with(|p| *p.borrow_mut() = Some(PanicInfo { file, line, msg }));
    }));
}

pub fn take_panic() -> Option<PanicInfo> {
    LAST_PANIC.with(|p| p.borrow_mut().take())
}

/// Run `f`, converting an unwind into the recorded PanicInfo.
pub fn catch<R>(f: impl FnOnce() -> R) -> Result<R, PanicInfo> {
    let _ = take_panic();
    match panic::catch_unwind(AssertUnwindSafe(f)) {
        Ok(r) => Ok(r),
        Err(_) => Err(take_panic().unwrap_or_default()),
    }
}

impl PanicInfo {
    /// true if the panic location is inside the code under test (or one of its
    /// dependencies), false if it is inside the harness itself.
    pub fn in_target(&self) -> bool {
        !self.file.contains("harness/src")
    }
    /// file + enclosing fn + message with digits stripped
    pub fn signature(&self) -> String {
        let short = match self.file.rfind("/src/") {
            Some(i) => {
                // keep crate-relative path
                let head = &self.file[..i];
                let krate = head.rsplit('/').next().unwrap_or("");
                // anything that is not a registry / toolchain path is the tree under test
                let krate = if self.file.contains("/.cargo/") || self.file.contains("/rustc/") || self.file.contains("/rustlib/") {
                    krate
                } else {
                    "smoltcp"
                };
                format!("{}{}", krate, &self.file[i..])
            }
            None => self.file.clone(),
        };
        let func = enclosing_fn(&self.file, self.line).unwrap_or_else(|| "?".into());
        let mut msg = String::new();
        let mut last_hash = false;
        for c in self.msg.chars() {
            if c.is_ascii_digit() {
                if !last_hash {
                    msg.push('#');
                }
                last_hash = true;
            } else {
                msg.push(c);
                last_hash = false;
            }
        }
        if msg.len() > 120 {
            msg.truncate(120);
        }
        format!("panic:{}:{}:{}", short, func, msg)
    }
}

fn enclosing_fn(file: &str, line: u32) -> Option<String> {
    let text = std::fs::read_to_string(file).ok()?;
    let lines: Vec<&str> = text.lines().collect();
    let mut i = (line as usize).min(lines.len());
    while i > 0 {
        i -= 1;
        let l = lines[i].trim_start();
        if let Some(pos) = l.find("fn ") {
            let before = &l[..pos];
            if before.is_empty()
                || before.ends_with("pub ")
                || before.ends_with(") ")
                || before.ends_with("const ")
                || before.ends_with("async ")
            {
                let rest = &l[pos + 3..];
                let name: String = rest
                    .chars()
                    .take_while(|c| c.is_alphanumeric() || *c == '_')
                    .collect();
                if !name.is_empty() {
                    return Some(name);
                }
            }
        }
    }
    None
}

// ---------------------------------------------------------------- summary

pub struct Summary {
    pub ctx: Ctx,
    pub cases: u64,
    pub evals: u64,
    pub classes: BTreeSet<String>,
    pub counters: BTreeMap<String, u64>,
    pub samples: Vec<Json>,
    /// signature -> (count, first case, violation)
    pub violations: BTreeMap<String, (u64, u64, Violation)>,
    pub harness_errors: Vec<String>,
    pub extra: Vec<(String, Json)>,
    pub wall_s: f64,
    pub exhaustive: bool,
}

impl Summary {
    pub fn new(ctx: &Ctx) -> Summary {
        Summary {
            ctx: ctx.clone(),
            cases: 0,
            evals: 0,
            classes: BTreeSet::new(),
            counters: BTreeMap::new(),
            samples: Vec::new(),
            violations: BTreeMap::new(),
            harness_errors: Vec::new(),
            extra: Vec::new(),
            wall_s: 0.0,
            exhaustive: false,
        }
    }
    pub fn absorb(&mut self, idx: u64, out: CaseOut) {
        self.cases += 1;
        self.evals += out.evals;
        for c in out.classes {
            self.classes.insert(c);
        }
        for (k, v) in out.counters {
            *self.counters.entry(k).or_insert(0) += v;
        }
        if let Some(s) = out.sample {
            if self.samples.len() < 4 {
                self.samples.push(s);
            }
        }
        for v in out.violations {
            let e = self
                .violations
                .entry(v.sig.clone())
                .or_insert((0, idx, v.clone()));
            e.0 += 1;
            if idx < e.1 {
                e.1 = idx;
                e.2 = v;
            }
        }
        for h in out.harness_errors {
            if self.harness_errors.len() < 20 {
                self.harness_errors.push(format!("case {}: {}", idx, h));
            }
        }
    }
    pub fn merge(&mut self, other: Summary) {
        self.cases += other.cases;
        self.evals += other.evals;
        self.classes.extend(other.classes);
        for (k, v) in other.counters {
            *self.counters.entry(k).or_insert(0) += v;
        }
        for s in other.samples {
            if self.samples.len() < 6 {
                self.samples.push(s);
            }
        }
        for (k, v) in other.violations {
            let e = self.violations.entry(k).or_insert((0, v.1, v.2.clone()));
            e.0 += v.0;
        }
        self.harness_errors.extend(other.harness_errors);
        self.extra.extend(other.extra);
        self.wall_s += other.wall_s;
    }
}

/// Run `n` independent cases named `part` in parallel.  The case function gets
/// its own PRNG stream derived from (seed, property, part, index).
pub fn run_cases<F>(ctx: &Ctx, part: &str, n: u64, f: F) -> Summary
where
    F: Fn(u64, &mut Rng, &Ctx) -> CaseOut + Sync,
{
    let t0 = Instant::now();
    let (first, n) = match ctx.case_range {
        Some((a, c)) => (a.min(n), (a + c).min(n)),
        None => (0, n),
    };
    let next = AtomicU64::new(first);
    let results: Mutex<Vec<(u64, CaseOut)>> = Mutex::new(Vec::new());
    let key = format!("{}/{}", ctx.prop, part);
    let threads = if ctx.verbose { 1 } else { ctx.threads.max(1) };
    std::thread::scope(|s| {
        for _ in 0..threads {
            s.spawn(|| {
                let mut local: Vec<(u64, CaseOut)> = Vec::new();
                loop {
                    let i = next.fetch_add(1, Ordering::Relaxed);
                    if i >= n {
                        break;
                    }
                    if let Some(b) = ctx.budget_s {
                        if i > first && t0.elapsed().as_secs() >= b {
                            break;
                        }
                    }
                    let out = run_one(ctx, &key, i, &f);
                    local.push((i, out));
                    if local.len() >= 256 {
                        results.lock().unwrap().append(&mut local);
                    }
                }
                results.lock().unwrap().append(&mut local);
            });
        }
    });
    let mut all = results.into_inner().unwrap();
    all.sort_by_key(|e| e.0);
    let mut sum = Summary::new(ctx);
    for (i, out) in all {
        sum.absorb(i, out);
    }
    // tag replay coordinates
    for (_, v) in sum.violations.iter_mut() {
        let d = std::mem::replace(&mut v.2.detail, Json::Null);
        v.2.detail = Json::obj()
            .set("part", Json::s(part))
            .set("case", Json::u(v.1))
            .set("detail", d);
    }
    sum.wall_s = t0.elapsed().as_secs_f64();
    sum
}

/// Budgeted, single-worker variant for the slow sanitizer shards: cases run one after the other on
/// a helper thread; after `budget_s` no new case is started, and a case still running at twice
/// the budget is abandoned (its observations are simply missing - the budget limits coverage and
/// is never part of a verdict).
pub fn run_cases_budgeted(ctx: &Ctx, part: &str, n: u64, f: fn(u64, &mut Rng, &Ctx) -> CaseOut) -> Summary {
    let t0 = Instant::now();
    let budget = ctx.budget_s.unwrap_or(u64::MAX / 4);
    let (first, n) = match ctx.case_range {
        Some((a, c)) => (a.min(n), (a + c).min(n)),
        None => (0, n),
    };
    let key = format!("{}/{}", ctx.prop, part);
    let (tx, rx) = std::sync::mpsc::channel::<(u64, CaseOut)>();
    let c2 = ctx.clone();
    let worker = std::thread::Builder::new().stack_size(16 << 20).spawn(move || {
        let t = Instant::now();
        for i in first..n {
            if i > first && t.elapsed().as_secs() >= budget {
                break;
            }
            let out = run_one(&c2, &key, i, &f);
            if tx.send((i, out)).is_err() {
                break;
            }
        }
    });
    let mut sum = Summary::new(ctx);
    if worker.is_err() {
        sum.harness_errors.push("cannot spawn the worker thread".into());
        return sum;
    }
    let hard = std::time::Duration::from_secs(budget.saturating_mul(2));
    loop {
        let left = hard.checked_sub(t0.elapsed()).unwrap_or_default();
        match rx.recv_timeout(left.max(std::time::Duration::from_millis(10))) {
            Ok((i, out)) => sum.absorb(i, out),
            Err(std::sync::mpsc::RecvTimeoutError::Disconnected) => break,
            Err(std::sync::mpsc::RecvTimeoutError::Timeout) => {
                if t0.elapsed() >= hard {
                    sum.extra.push(("case_abandoned_at_twice_the_budget".into(), Json::Bool(true)));
                    break;
                }
            }
        }
    }
    for (_, v) in sum.violations.iter_mut() {
        let d = std::mem::replace(&mut v.2.detail, Json::Null);
        v.2.detail = Json::obj().set("part", Json::s(part)).set("case", Json::u(v.1)).set("detail", d);
    }
    sum.wall_s = t0.elapsed().as_secs_f64();
    sum
}

pub fn run_one<F>(ctx: &Ctx, key: &str, i: u64, f: &F) -> CaseOut
where
    F: Fn(u64, &mut Rng, &Ctx) -> CaseOut,
{
    let mut rng = Rng::for_case(ctx.seed, key, i);
    match catch(|| f(i, &mut rng, ctx)) {
        Ok(out) => out,
        Err(p) => {
            let mut out = CaseOut::default();
            if p.in_target() {
                out.violations.push(
                    Violation::new(
                        p.signature(),
                        format!("library code panicked at {}:{}: {}", p.file, p.line, p.msg),
                    )
                    .with(Json::obj().set("panic_file", Json::s(p.file.clone())).set("line", Json::u(p.line as u64))),
                );
            } else {
                out.harness_errors
                    .push(format!("harness panic at {}:{}: {}", p.file, p.line, p.msg));
            }
            out
        }
    }
}

/// Write the per-variant evidence part and the result list consumed by ./check.
pub fn finish(sum: &Summary, rule: &str, assumptions: &[&str], floors: &[(&str, u64)]) -> i32 {
    let ctx = &sum.ctx;
    let mut inconclusive: Vec<String> = sum.harness_errors.clone();
    for (k, min) in floors {
        let have = if *k == "evaluations" {
            sum.evals
        } else if *k == "distinct" {
            sum.classes.len() as u64
        } else {
            *sum.counters.get(*k).unwrap_or(&0)
        };
        if have < *min {
            inconclusive.push(format!("coverage floor not met: {} = {} < {}", k, have, min));
        }
    }
    let mut cov = Json::obj()
        .set("evaluations", Json::u(sum.evals))
        .set("distinct_nontrivial", Json::u(sum.classes.len() as u64))
        .set("rule", Json::s(rule))
        .set("cases", Json::u(sum.cases))
        .set("samples", Json::Arr(sum.samples.clone()))
        .set("counters", Json::from_map(&sum.counters));
    if sum.exhaustive {
        cov.put("exhaustive", Json::Bool(true));
    }
    // a compact list of the classes seen (capped)
    let cls: Vec<Json> = sum.classes.iter().take(400).map(|c| Json::s(c.clone())).collect();
    cov.put("classes_seen", Json::Arr(cls));
    for (k, v) in &sum.extra {
        cov.put(k, v.clone());
    }
    let ev = Json::obj()
        .set("property_id", Json::s(ctx.prop.clone()))
        .set("tier", Json::s(ctx.tier.clone()))
        .set("seed", Json::u(ctx.seed))
        .set("level", Json::s("exploration"))
        .set("variant", Json::s(ctx.variant.clone()))
        .set("coverage", cov)
        .set(
            "assumptions",
            Json::Arr(assumptions.iter().map(|a| Json::s(*a)).collect()),
        )
        .set("wall_s", Json::Float(sum.wall_s))
        .set("violations", Json::u(sum.violations.len() as u64));
    let base = format!("{}/{}.{}", ctx.out_dir, ctx.prop, ctx.variant);
    let _ = std::fs::create_dir_all(&ctx.out_dir);
    std::fs::write(format!("{}.evidence.json", base), ev.to_string()).expect("write evidence part");

    let mut res = Vec::new();
    for (sig, (count, case, v)) in &sum.violations {
        res.push(
            Json::obj()
                .set("signature", Json::s(sig.clone()))
                .set("count", Json::u(*count))
                .set("first_case", Json::u(*case))
                .set("description", Json::s(v.desc.clone()))
                .set("detail", v.detail.clone()),
        );
    }
    let result = Json::obj()
        .set("property_id", Json::s(ctx.prop.clone()))
        .set("variant", Json::s(ctx.variant.clone()))
        .set("tier", Json::s(ctx.tier.clone()))
        .set("seed", Json::u(ctx.seed))
        .set("violations", Json::Arr(res))
        .set(
            "inconclusive",
            Json::Arr(inconclusive.iter().map(|s| Json::s(s.clone())).collect()),
        );
    std::fs::write(format!("{}.result.json", base), result.to_string()).expect("write result");
    eprintln!(
        "[{} {} {}] cases={} evals={} distinct={} violations={} inconclusive={} wall={:.1}s",
        ctx.prop,
        ctx.variant,
        ctx.tier,
        sum.cases,
        sum.evals,
        sum.classes.len(),
        sum.violations.len(),
        inconclusive.len(),
        sum.wall_s
    );
    if !sum.violations.is_empty() {
        1
    } else if !inconclusive.is_empty() {
        3
    } else {
        0
    }
}
