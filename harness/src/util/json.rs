//! Minimal JSON value + writer (the harness has no external dependencies).
use std::collections::BTreeMap;
use std::fmt::Write;

#[derive(Clone, Debug, PartialEq)]
pub enum Json {
    Null,
    Bool(bool),
    Int(i64),
    UInt(u64),
    Float(f64),
    Str(String),
    Arr(Vec<Json>),
    Obj(Vec<(String, Json)>),
}

impl Json {
    pub fn obj() -> Json {
        Json::Obj(Vec::new())
    }
    pub fn s(x: impl Into<String>) -> Json {
        Json::Str(x.into())
    }
    pub fn u(x: u64) -> Json {
        Json::UInt(x)
    }
    pub fn arr<I: IntoIterator<Item = Json>>(it: I) -> Json {
        Json::Arr(it.into_iter().collect())
    }
    pub fn set(mut self, k: &str, v: Json) -> Json {
        if let Json::Obj(ref mut items) = self {
            if let Some(slot) = items.iter_mut().find(|(kk, _)| kk == k) {
                slot.1 = v;
            } else {
                items.push((k.to_string(), v));
            }
        }
        self
    }
    pub fn put(&mut self, k: &str, v: Json) {
        if let Json::Obj(items) = self {
            if let Some(slot) = items.iter_mut().find(|(kk, _)| kk == k) {
                slot.1 = v;
            } else {
                items.push((k.to_string(), v));
            }
        }
    }
    pub fn from_map(m: &BTreeMap<String, u64>) -> Json {
        Json::Obj(m.iter().map(|(k, v)| (k.clone(), Json::UInt(*v))).collect())
    }
    pub fn hex(b: &[u8]) -> Json {
        let mut s = String::with_capacity(b.len() * 2);
        for x in b {
            let _ = write!(s, "{:02x}", x);
        }
        Json::Str(s)
    }

    pub fn write(&self, out: &mut String) {
        match self {
            Json::Null => out.push_str("null"),
            Json::Bool(b) => out.push_str(if *b { "true" } else { "false" }),
            Json::Int(i) => {
                let _ = write!(out, "{}", i);
            }
            Json::UInt(i) => {
                let _ = write!(out, "{}", i);
            }
            Json::Float(f) => {
                if f.is_finite() {
                    let _ = write!(out, "{:.3}", f);
                } else {
                    out.push_str("null");
                }
            }
            Json::Str(s) => write_str(out, s),
            Json::Arr(a) => {
                out.push('[');
                for (i, x) in a.iter().enumerate() {
                    if i > 0 {
                        out.push(',');
                    }
                    x.write(out);
                }
                out.push(']');
            }
            Json::Obj(o) => {
                out.push('{');
                for (i, (k, v)) in o.iter().enumerate() {
                    if i > 0 {
                        out.push(',');
                    }
                    write_str(out, k);
                    out.push(':');
                    v.write(out);
                }
                out.push('}');
            }
        }
    }
    pub fn to_string(&self) -> String {
        let mut s = String::new();
        self.write(&mut s);
        s
    }
}

fn write_str(out: &mut String, s: &str) {
    out.push('"');
    for c in s.chars() {
        match c {
            '"' => out.push_str("\\\""),
            '\\' => out.push_str("\\\\"),
            '\n' => out.push_str("\\n"),
            '\r' => out.push_str("\\r"),
            '\t' => out.push_str("\\t"),
            c if (c as u32) < 0x20 => {
                let _ = write!(out, "\\u{:04x}", c as u32);
            }
            c => out.push(c),
        }
    }
    out.push('"');
}

impl From<&str> for Json {
    fn from(s: &str) -> Json {
        Json::Str(s.to_string())
    }
}
impl From<String> for Json {
    fn from(s: String) -> Json {
        Json::Str(s)
    }
}
impl From<u64> for Json {
    fn from(x: u64) -> Json {
        Json::UInt(x)
    }
}
impl From<usize> for Json {
    fn from(x: usize) -> Json {
        Json::UInt(x as u64)
    }
}
impl From<i64> for Json {
    fn from(x: i64) -> Json {
        Json::Int(x)
    }
}
impl From<bool> for Json {
    fn from(x: bool) -> Json {
        Json::Bool(x)
    }
}
