//! NOT a seeded change: two probes of the UNCHANGED tree that turned up while looking for
//! places to seed. Both print what happens and assert the (defective) behaviour observed at
//! HEAD, so they pass on the unchanged tree. Put the file into tests/ to run it.
//!
//! 1. close() in SYN-RECEIVED: the socket goes to FIN-WAIT-1 and the handshake ACK
//!    (ack = ISS+1) is then mistaken for the acknowledgment of a FIN that was never sent:
//!    FIN-WAIT-2 for ever, no FIN is ever transmitted, poll_at = None (C17, C02).
//! 2. RST in SYN-RECEIVED returns a listener to LISTEN without reset(): `remote_mss` of the
//!    aborted attempt survives, so a next peer that announces no MSS gets 1460-octet
//!    segments instead of 536 (C05).

use std::collections::VecDeque;

use smoltcp::iface::{Config, Interface, SocketHandle, SocketSet};
use smoltcp::phy::{self, ChecksumCapabilities, Device, DeviceCapabilities, Medium};
use smoltcp::socket::tcp;
use smoltcp::time::{Duration, Instant};
use smoltcp::wire::{
    HardwareAddress, IpAddress, IpCidr, IpProtocol, Ipv4Address, Ipv4Packet, Ipv4Repr, TcpControl,
    TcpPacket, TcpRepr, TcpSeqNumber,
};

// ---------------------------------------------------------------------------------------------
// A trivial in-memory device: frames written by the stack land in `tx`, frames to be read by
// the stack are taken from `rx`.
// ---------------------------------------------------------------------------------------------
struct Dev {
    rx: VecDeque<Vec<u8>>,
    tx: VecDeque<Vec<u8>>,
}

struct RxTok(Vec<u8>);
struct TxTok<'a>(&'a mut VecDeque<Vec<u8>>);

impl phy::RxToken for RxTok {
    fn consume<R, F>(self, f: F) -> R
    where
        F: FnOnce(&[u8]) -> R,
    {
        f(&self.0)
    }
}

impl<'a> phy::TxToken for TxTok<'a> {
    fn consume<R, F>(self, len: usize, f: F) -> R
    where
        F: FnOnce(&mut [u8]) -> R,
    {
        let mut buf = vec![0; len];
        let r = f(&mut buf);
        self.0.push_back(buf);
        r
    }
}

impl Device for Dev {
    type RxToken<'a>
        = RxTok
    where
        Self: 'a;
    type TxToken<'a>
        = TxTok<'a>
    where
        Self: 'a;

    fn receive(&mut self, _t: Instant) -> Option<(Self::RxToken<'_>, Self::TxToken<'_>)> {
        let p = self.rx.pop_front()?;
        Some((RxTok(p), TxTok(&mut self.tx)))
    }

    fn transmit(&mut self, _t: Instant) -> Option<Self::TxToken<'_>> {
        Some(TxTok(&mut self.tx))
    }

    fn capabilities(&self) -> DeviceCapabilities {
        let mut caps = DeviceCapabilities::default();
        caps.medium = Medium::Ip;
        caps.max_transmission_unit = 1500;
        caps
    }
}

const LOCAL: Ipv4Address = Ipv4Address::new(192, 168, 1, 1);
const PEER: Ipv4Address = Ipv4Address::new(192, 168, 1, 2);
const LOCAL_PORT: u16 = 80;
const PEER_PORT: u16 = 49500;

/// The socket under test behind a real `Interface`.
struct Host {
    dev: Dev,
    iface: Interface,
    sockets: SocketSet<'static>,
    handle: SocketHandle,
}

impl Host {
    fn new(seed: u64, rx: usize, tx: usize) -> Host {
        let mut dev = Dev {
            rx: VecDeque::new(),
            tx: VecDeque::new(),
        };
        let mut config = Config::new(HardwareAddress::Ip);
        config.random_seed = seed;
        let mut iface = Interface::new(config, &mut dev, Instant::ZERO);
        iface.update_ip_addrs(|a| a.push(IpCidr::new(IpAddress::Ipv4(LOCAL), 24)).unwrap());
        let socket = tcp::Socket::new(
            tcp::SocketBuffer::new(vec![0; rx]),
            tcp::SocketBuffer::new(vec![0; tx]),
        );
        let mut sockets = SocketSet::new(vec![]);
        let handle = sockets.add(socket);
        Host {
            dev,
            iface,
            sockets,
            handle,
        }
    }

    fn sock(&mut self) -> &mut tcp::Socket<'static> {
        self.sockets.get_mut::<tcp::Socket>(self.handle)
    }

    fn poll(&mut self, now: Instant) {
        self.iface.poll(now, &mut self.dev, &mut self.sockets);
    }

    /// Hand a segment crafted by the scripted peer to the device.
    fn inject(&mut self, repr: &TcpRepr) {
        let ip = Ipv4Repr {
            src_addr: PEER,
            dst_addr: LOCAL,
            next_header: IpProtocol::Tcp,
            payload_len: repr.buffer_len(),
            hop_limit: 64,
        };
        let mut buf = vec![0u8; ip.buffer_len() + repr.buffer_len()];
        let caps = ChecksumCapabilities::default();
        ip.emit(&mut Ipv4Packet::new_unchecked(&mut buf[..]), &caps);
        let hl = ip.buffer_len();
        repr.emit(
            &mut TcpPacket::new_unchecked(&mut buf[hl..]),
            &IpAddress::Ipv4(PEER),
            &IpAddress::Ipv4(LOCAL),
            &caps,
        );
        self.dev.rx.push_back(buf);
    }

    /// Take everything the stack transmitted and decode it.
    fn drain(&mut self) -> Vec<Seg> {
        let mut out = Vec::new();
        while let Some(frame) = self.dev.tx.pop_front() {
            let ip = Ipv4Packet::new_checked(&frame[..]).unwrap();
            let tcp = TcpPacket::new_checked(ip.payload()).unwrap();
            let repr = TcpRepr::parse(
                &tcp,
                &IpAddress::Ipv4(LOCAL),
                &IpAddress::Ipv4(PEER),
                &ChecksumCapabilities::default(),
            )
            .unwrap();
            out.push(Seg {
                control: repr.control,
                seq: repr.seq_number,
                ack: repr.ack_number,
                window: repr.window_len,
                payload: repr.payload.to_vec(),
            });
        }
        out
    }
}

#[derive(Debug, Clone)]
#[allow(dead_code)]
struct Seg {
    control: TcpControl,
    seq: TcpSeqNumber,
    ack: Option<TcpSeqNumber>,
    window: u16,
    payload: Vec<u8>,
}

fn seg(
    control: TcpControl,
    seq: TcpSeqNumber,
    ack: Option<TcpSeqNumber>,
    window: u16,
    payload: &[u8],
) -> TcpRepr<'_> {
    TcpRepr {
        src_port: PEER_PORT,
        dst_port: LOCAL_PORT,
        control,
        seq_number: seq,
        ack_number: ack,
        window_len: window,
        window_scale: None,
        max_seg_size: None,
        sack_permitted: false,
        sack_ranges: [None, None, None],
        timestamp: None,
        payload,
    }
}

/// Passive open driven by the scripted peer. Returns the socket's initial sequence number.
fn handshake(
    h: &mut Host,
    now: &mut Instant,
    peer_iss: TcpSeqNumber,
    window: u16,
    mss: Option<u16>,
) -> TcpSeqNumber {
    h.sock().listen(LOCAL_PORT).unwrap();
    let mut syn = seg(TcpControl::Syn, peer_iss, None, window, &[]);
    syn.max_seg_size = mss;
    h.inject(&syn);
    h.poll(*now);
    let out = h.drain();
    assert_eq!(out.len(), 1);
    assert_eq!(out[0].control, TcpControl::Syn);
    assert_eq!(out[0].ack, Some(peer_iss + 1));
    let iss = out[0].seq;
    *now += Duration::from_millis(1);
    h.inject(&seg(
        TcpControl::None,
        peer_iss + 1,
        Some(iss + 1),
        window,
        &[],
    ));
    h.poll(*now);
    assert_eq!(h.sock().state(), tcp::State::Established);
    assert!(h.drain().is_empty());
    iss
}

#[test]
fn close_in_syn_received() {
    let mut h = Host::new(1, 256, 256);
    let mut now = Instant::from_millis(0);
    let irs = TcpSeqNumber(1000);
    h.sock().listen(LOCAL_PORT).unwrap();
    let mut syn = seg(TcpControl::Syn, irs, None, 1000, &[]);
    syn.max_seg_size = Some(1460);
    h.inject(&syn);
    h.poll(now);
    let out = h.drain();
    let iss = out[0].seq;
    assert_eq!(h.sock().state(), tcp::State::SynReceived);
    h.sock().close();
    assert_eq!(h.sock().state(), tcp::State::FinWait1);
    now += Duration::from_millis(1);
    h.poll(now);
    println!("emitted after close: {:?}", h.drain());
    h.inject(&seg(TcpControl::None, irs + 1, Some(iss + 1), 1000, &[]));
    now += Duration::from_millis(1);
    h.poll(now);
    println!(
        "after handshake ACK: state {} emitted {:?}",
        h.sock().state(),
        h.drain()
    );
    let mut fin_seen = false;
    for _ in 0..5 {
        now += Duration::from_millis(70_000);
        h.poll(now);
        let out = h.drain();
        fin_seen |= out.iter().any(|s| s.control == TcpControl::Fin);
        println!(
            "t={now} state {} emitted {:?} poll_at {:?}",
            h.sock().state(),
            out,
            h.iface.poll_at(now, &h.sockets)
        );
    }
    // Observed at HEAD (defect): FIN-WAIT-2 although no FIN ever left the socket.
    assert_eq!(h.sock().state(), tcp::State::FinWait2);
    assert!(!fin_seen);
}

#[test]
fn mss_after_rst_in_syn_received() {
    let mut h = Host::new(1, 4096, 4096);
    let mut now = Instant::from_millis(0);
    let irs = TcpSeqNumber(1000);
    h.sock().listen(LOCAL_PORT).unwrap();
    let mut syn = seg(TcpControl::Syn, irs, None, 60000, &[]);
    syn.max_seg_size = Some(1460);
    h.inject(&syn);
    h.poll(now);
    h.drain();
    assert_eq!(h.sock().state(), tcp::State::SynReceived);
    // first client gives up
    h.inject(&seg(TcpControl::Rst, irs + 1, None, 0, &[]));
    now += Duration::from_millis(1);
    h.poll(now);
    assert_eq!(h.sock().state(), tcp::State::Listen);
    // second client: no MSS option at all => its MSS is 536
    let irs2 = TcpSeqNumber(500_000);
    h.inject(&seg(TcpControl::Syn, irs2, None, 60000, &[]));
    now += Duration::from_millis(1);
    h.poll(now);
    let out = h.drain();
    let iss = out[0].seq;
    h.inject(&seg(TcpControl::None, irs2 + 1, Some(iss + 1), 60000, &[]));
    now += Duration::from_millis(1);
    h.poll(now);
    assert_eq!(h.sock().state(), tcp::State::Established);
    h.sock().send_slice(&[7u8; 3000]).unwrap();
    now += Duration::from_millis(1);
    h.poll(now);
    let out = h.drain();
    for s in &out {
        println!("segment len {}", s.payload.len());
    }
    // Observed at HEAD (defect): 1460-octet segments to a peer whose MSS is 536.
    assert_eq!(out[0].payload.len(), 1460);
}
